package PKG

import (
	"github.com/wundergraph/graphql-go-tools/v2/pkg/engine/resolve"
)

var zzPerms3 = [][]int{{0, 1, 2}, {2, 1, 0}, {1, 2, 0}, {0, 2, 1}, {2, 0, 1}, {1, 0, 2}}
var zzIDMaps = [][]int{{0, 1, 2, 3, 4}, {4, 3, 2, 1, 0}, {2, 0, 4, 1, 3}}

// zzPermutation picks a permutation of 0..k-1 by k-1 solver choices (Lehmer code).
func zzPermutation(k int) []int {
	rest := make([]int, k)
	for i := range rest {
		rest[i] = i
	}
	out := make([]int, 0, k)
	for len(rest) > 0 {
		c := nondetChoice(len(rest))
		out = append(out, rest[c])
		rest = append(rest[:c], rest[c+1:]...)
	}
	return out
}

// zzBefore reports, for a tree of Sequence/Parallel/Single nodes, the set of fetch ids that are
// guaranteed to have completed before fetch `id` starts (independent re-implementation of the
// structural semantics: a Sequence runs its children in order, a Parallel spawns all and waits).
func zzCollect(n *resolve.FetchTreeNode, out *[]int) {
	if n == nil {
		return
	}
	if n.Kind == resolve.FetchTreeNodeKindSingle {
		*out = append(*out, n.Item.Fetch.Dependencies().FetchID)
		return
	}
	for _, c := range n.ChildNodes {
		zzCollect(c, out)
	}
}

// zzCheckOrder walks the tree; done = ids completed before this node starts.
func zzCheckOrder(n *resolve.FetchTreeNode, done []int, inTree []int) {
	if n == nil {
		return
	}
	switch n.Kind {
	case resolve.FetchTreeNodeKindSingle:
		deps := n.Item.Fetch.Dependencies()
		for _, d := range deps.DependsOnFetchIDs {
			in := false
			for _, x := range inTree {
				if x == d {
					in = true
				}
			}
			if !in {
				continue // dependency on a fetch outside this tree (trigger / other defer group)
			}
			ok := false
			for _, x := range done {
				if x == d {
					ok = true
				}
			}
			verifAssert(ok, "every in-tree dependency is sequenced before its dependant")
		}
	case resolve.FetchTreeNodeKindSequence:
		cur := append([]int(nil), done...)
		for _, c := range n.ChildNodes {
			zzCheckOrder(c, cur, inTree)
			zzCollect(c, &cur)
		}
	case resolve.FetchTreeNodeKindParallel:
		for _, c := range n.ChildNodes {
			zzCheckOrder(c, done, inTree)
		}
	default:
		verifAssert(false, "unexpected node kind in organized tree")
	}
}

// VerifC08Structure: H-C08a. k single fetches with a symbolic acyclic dependency relation, symbolic input order,
// optional dependencies on an out-of-tree fetch; mode 0 = legacy waves, 1 = scheduler. The organized tree
// contains every fetch exactly once and sequences every in-tree dependency before its dependant.
func VerifC08Structure(k, mode, outside int) {
	idmap := zzIDMaps[nondetChoice(len(zzIDMaps))]
	// rank i (topological position) gets fetch id ids[i]; ids are distinct, taken from the map restricted to k
	ids := make([]int, 0, k)
	for _, x := range idmap {
		if x < k {
			ids = append(ids, x+1) // ids 1..k; 0 and 100 are outside the tree
		}
	}
	nodes := make([]*resolve.FetchTreeNode, k)
	for i := 0; i < k; i++ {
		var deps []int
		if outside != 0 && nondetBool() {
			deps = append(deps, 100) // out-of-tree dependency listed first
		}
		for j := 0; j < i; j++ {
			if nondetBool() {
				deps = append(deps, ids[j])
			}
		}
		if outside != 0 && nondetBool() {
			deps = append(deps, 0) // out-of-tree dependency listed last
		}
		nodes[i] = &resolve.FetchTreeNode{
			Kind: resolve.FetchTreeNodeKindSingle,
			Item: &resolve.FetchItem{Fetch: &resolve.SingleFetch{FetchDependencies: resolve.FetchDependencies{FetchID: ids[i], DependsOnFetchIDs: deps}}},
		}
	}
	order := zzPermutation(k)
	children := make([]*resolve.FetchTreeNode, k)
	for i, o := range order {
		children[i] = nodes[o]
	}
	root := &resolve.FetchTreeNode{Kind: resolve.FetchTreeNodeKindSequence, ChildNodes: children}
	p := &FetchTreeProcessors{
		createMultiFetch:            &createMultiFetch{disable: true},
		orderSequenceByDependencies: &orderSequenceByDependencies{},
		createParallelNodes:         &createParallelNodes{},
		scheduleFetches:             &scheduleFetches{disable: mode == 0},
	}
	p.organizeFetchTree(root)

	var all []int
	zzCollect(root, &all)
	verifAssert(len(all) == k, "the organized tree contains exactly k fetches")
	for i := 0; i < k; i++ {
		n := 0
		for _, x := range all {
			if x == ids[i] {
				n++
			}
		}
		verifAssert(n == 1, "every fetch appears exactly once")
	}
	zzCheckOrder(root, nil, ids)
	verifCover("organized")
}
