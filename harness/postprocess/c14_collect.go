package PKG

import (
	"github.com/wundergraph/graphql-go-tools/v2/pkg/engine/resolve"
)

type zzProt struct {
	ds, typ, field string
}

func zzName(alphabet string) string {
	b := nondetByte()
	ok := false
	for i := 0; i < len(alphabet); i++ {
		ok = ok || b == alphabet[i]
	}
	verifAssume(ok)
	return string([]byte{b})
}

// VerifC14Collect: H-C14a. The coordinate collector lists exactly the protected coordinates of the plan: every
// field of the response tree with an authorization rule, once per data source that can serve it, and every
// protected root field of every fetch; nothing else, no duplicates. Type names, field names, data source ids
// and the protection flags are symbolic, so any collision of the de-duplication key is within the claim.
func VerifC14Collect(nfields, nfetch int) {
	var want []zzProt
	first := true
	mk := func() *resolve.FieldInfo {
		fi := &resolve.FieldInfo{Name: zzName("xy"), ExactParentTypeName: zzName("AB"), HasAuthorizationRule: nondetBool()}
		fi.Source.IDs = []string{zzName("12")}
		if first && nondetBool() {
			// a merged (shareable) field served by two data sources
			fi.Source.IDs = append(fi.Source.IDs, zzName("12"))
		}
		first = false
		fi.Source.Names = fi.Source.IDs
		if fi.HasAuthorizationRule {
			for _, ds := range fi.Source.IDs {
				want = append(want, zzProt{ds, fi.ExactParentTypeName, fi.Name})
			}
		}
		return fi
	}
	leaf := func() *resolve.Field {
		return &resolve.Field{Name: []byte("f"), Value: &resolve.String{Path: []string{"f"}, Nullable: true}, Info: mk()}
	}
	// shape: { f0 o{ f1 l[{ f2 }] } } truncated to nfields leaves
	root := &resolve.Object{}
	if nfields >= 1 {
		root.Fields = append(root.Fields, leaf())
	}
	if nfields >= 2 {
		inner := &resolve.Object{Path: []string{"o"}, Nullable: true}
		inner.Fields = append(inner.Fields, leaf())
		if nfields >= 3 {
			item := &resolve.Object{Nullable: true, Fields: []*resolve.Field{leaf()}}
			inner.Fields = append(inner.Fields, &resolve.Field{Name: []byte("l"), Value: &resolve.Array{Path: []string{"l"}, Nullable: true, Item: item}})
		}
		// the object field itself may be protected too
		root.Fields = append(root.Fields, &resolve.Field{Name: []byte("o"), Value: inner, Info: mk()})
	}
	resp := &resolve.GraphQLResponse{Info: &resolve.GraphQLResponseInfo{}, Data: root}
	resp.Fetches = resolve.Sequence()
	for i := 0; i < nfetch; i++ {
		ds := zzName("12")
		gc := resolve.GraphCoordinate{TypeName: zzName("AB"), FieldName: zzName("xy"), HasAuthorizationRule: nondetBool()}
		if gc.HasAuthorizationRule {
			want = append(want, zzProt{ds, gc.TypeName, gc.FieldName})
		}
		f := &resolve.SingleFetch{Info: &resolve.FetchInfo{DataSourceID: ds, RootFields: []resolve.GraphCoordinate{gc}}}
		if i == 0 && nondetBool() {
			resp.RawFetches = append(resp.RawFetches, &resolve.FetchItem{Fetch: f})
		} else {
			resp.Fetches.ChildNodes = append(resp.Fetches.ChildNodes, resolve.Single(f))
		}
	}
	(&collectAuthorizationCoordinates{}).Process(resp)
	got := resp.Info.AuthorizationCoordinates
	for _, w := range want {
		found := false
		for _, g := range got {
			if g.DataSourceID == w.ds && g.Coordinate.TypeName == w.typ && g.Coordinate.FieldName == w.field {
				found = true
			}
		}
		verifAssert(found, "every protected coordinate of the plan is listed for each of its data sources")
	}
	for i, g := range got {
		found := false
		for _, w := range want {
			if g.DataSourceID == w.ds && g.Coordinate.TypeName == w.typ && g.Coordinate.FieldName == w.field {
				found = true
			}
		}
		verifAssert(found, "only protected coordinates are listed")
		for j := 0; j < i; j++ {
			h := got[j]
			same := g.DataSourceID == h.DataSourceID && g.Coordinate.TypeName == h.Coordinate.TypeName && g.Coordinate.FieldName == h.Coordinate.FieldName
			verifAssert(!same, "no coordinate is listed twice")
		}
	}
	if len(want) > 0 {
		verifCover("some protected coordinate")
	} else {
		verifAssert(len(got) == 0, "nothing listed without a protected field")
	}
}
