package PKG

import (
	"bytes"

	"github.com/wundergraph/graphql-go-tools/v2/pkg/ast"
	"github.com/wundergraph/graphql-go-tools/v2/pkg/astprinter"
	"github.com/wundergraph/graphql-go-tools/v2/pkg/operationreport"
)

// operation-side and type-system words the slot mode can spell
var zzWords = []string{
	"query", "mutation", "subscription", "fragment", "on", "a", "b", "T", "true", "null", "1", "1.5", "\"s\"", "...",
	"type", "interface", "input", "enum", "union", "scalar", "schema", "extend", "directive", "implements", "repeatable", "FIELD", "Int", "\"\"\"d\"\"\"",
}

// zzBuildInput: mode 0 = n arbitrary bytes; mode 3 = prefix[vocab] + n arbitrary bytes + suffix; mode 4 = generated document; mode 1 = n slots, each slot either one of the first
// `vocab` words (followed by a space) or one symbolic byte constrained to GraphQL punctuation.
func zzBuildInput(mode, n, vocab int) []byte {
	if mode == 0 {
		return nondetBytes(n)
	}
	if mode == 3 {
		p := zzPrefixes[vocab]
		in := append([]byte(p[0]), nondetBytes(n)...)
		return append(in, p[1]...)
	}
	if mode == 4 {
		return zzGenDocument(n, vocab)
	}
	if mode == 5 {
		return []byte(zzDebugInputs[n])
	}
	if mode == 6 { // operations only, keyword-like names allowed
		g := &zzGen{budget: vocab, kwNames: true, opsOnly: true}
		for i := 0; i < n; i++ {
			if i > 0 {
				g.w(" ")
			}
			g.definition()
		}
		return g.out
	}
	if mode == 7 { // operations only
		g := &zzGen{budget: vocab, opsOnly: true}
		for i := 0; i < n; i++ {
			if i > 0 {
				g.w(" ")
			}
			g.definition()
		}
		return g.out
	}
	var in []byte
	for i := 0; i < n; i++ {
		c := nondetChoice(vocab + 1)
		if c == vocab {
			b := nondetByte()
			verifAssume(b == '{' || b == '}' || b == '(' || b == ')' || b == ':' || b == '$' || b == '@' || b == '[' || b == ']' || b == '!' || b == '=' || b == '|' || b == '&')
			in = append(in, b)
		} else {
			in = append(in, zzWords[c]...)
			in = append(in, ' ')
		}
	}
	return in
}

var zzDebugInputs = []string{"{_{_}}", "{_{...{d}}}", "{a{b}}", "{a}"}

// zzPrefixes: mode 3 puts n arbitrary bytes after a fixed prefix (and before a fixed suffix) so that short
// symbolic inputs reach productions that raw bytes alone cannot spell.
var zzPrefixes = [][2]string{
	{"{f(a:", ")}"},                 // 0: argument value position
	{"{f(a:[", ""},                  // 1: inside a list value, unterminated
	{"{f(a:{b:", "})}"},             // 2: object field value
	{"query($v:", "){f}"},           // 3: variable type position
	{"query($v:T=", "){f}"},         // 4: default value position
	{"{", "}"},                      // 5: selection position
	{"{...", "}"},                   // 6: after a spread
	{"{f@", "}"},                    // 7: directive position
	{"type T{f(a:Int", "):Int}"},    // 8: input value definition tail
	{"type T", "{f:Int}"},           // 9: after a type name (implements / directives)
	{"directive@d on ", ""},         // 10: directive locations
	{"\"\"\"", "\"\"\" scalar S"},   // 11: block string description body
	{"\"", "\" scalar S"},            // 12: string description body
	{"union U=", ""},                // 13: union members
	{"enum E{", "}"},                // 14: enum values
	{"extend ", " T @d"},            // 15: extension kind
	{"{f(a:\"", "\")}"},              // 16: string value body
	{"{f(a:\"\"\"", "\"\"\")}"},      // 17: block string value body
	{"fragment F on T", "{f}"},      // 18: fragment directives
	{"schema{query:", "}"},          // 19: root operation type
	{"{f(a:1", ")}"},                // 20: number tail
	{"query Q", "{f}"},              // 21: after operation name
	{"input I{a:[Int!]!=", "}"},     // 22: input field default
}

func zzRefOK(r ast.ByteSliceReference, n int) bool {
	return r.Start <= r.End && int(r.End) <= n
}

// zzCheckRefs: every name/value reference of the parsed document lies inside the input.
func zzCheckRefs(d *ast.Document, n int) {
	ok := true
	for i := range d.Fields {
		ok = ok && zzRefOK(d.Fields[i].Name, n) && zzRefOK(d.Fields[i].Alias.Name, n)
	}
	for i := range d.Arguments {
		ok = ok && zzRefOK(d.Arguments[i].Name, n)
	}
	for i := range d.Directives {
		ok = ok && zzRefOK(d.Directives[i].Name, n)
	}
	for i := range d.VariableValues {
		ok = ok && zzRefOK(d.VariableValues[i].Name, n)
	}
	for i := range d.StringValues {
		ok = ok && zzRefOK(d.StringValues[i].Content, n)
	}
	for i := range d.IntValues {
		ok = ok && zzRefOK(d.IntValues[i].Raw, n)
	}
	for i := range d.FloatValues {
		ok = ok && zzRefOK(d.FloatValues[i].Raw, n)
	}
	for i := range d.EnumValues {
		ok = ok && zzRefOK(d.EnumValues[i].Name, n)
	}
	for i := range d.ObjectFields {
		ok = ok && zzRefOK(d.ObjectFields[i].Name, n)
	}
	for i := range d.OperationDefinitions {
		ok = ok && zzRefOK(d.OperationDefinitions[i].Name, n)
	}
	for i := range d.FragmentDefinitions {
		ok = ok && zzRefOK(d.FragmentDefinitions[i].Name, n)
	}
	for i := range d.FragmentSpreads {
		ok = ok && zzRefOK(d.FragmentSpreads[i].FragmentName, n)
	}
	for i := range d.Types {
		ok = ok && zzRefOK(d.Types[i].Name, n)
	}
	for i := range d.ObjectTypeDefinitions {
		ok = ok && zzRefOK(d.ObjectTypeDefinitions[i].Name, n)
	}
	for i := range d.FieldDefinitions {
		ok = ok && zzRefOK(d.FieldDefinitions[i].Name, n)
	}
	for i := range d.InputValueDefinitions {
		ok = ok && zzRefOK(d.InputValueDefinitions[i].Name, n)
	}
	for i := range d.InterfaceTypeDefinitions {
		ok = ok && zzRefOK(d.InterfaceTypeDefinitions[i].Name, n)
	}
	for i := range d.EnumTypeDefinitions {
		ok = ok && zzRefOK(d.EnumTypeDefinitions[i].Name, n)
	}
	for i := range d.ScalarTypeDefinitions {
		ok = ok && zzRefOK(d.ScalarTypeDefinitions[i].Name, n)
	}
	for i := range d.UnionTypeDefinitions {
		ok = ok && zzRefOK(d.UnionTypeDefinitions[i].Name, n)
	}
	for i := range d.InputObjectTypeDefinitions {
		ok = ok && zzRefOK(d.InputObjectTypeDefinitions[i].Name, n)
	}
	for i := range d.DirectiveDefinitions {
		ok = ok && zzRefOK(d.DirectiveDefinitions[i].Name, n)
	}
	verifAssert(ok, "every name/value reference lies inside the input")
}

// zzShape: a structural summary — the number of nodes of every kind plus the root node kinds.
func zzShape(d *ast.Document) []int {
	s := []int{len(d.RootNodes), len(d.OperationDefinitions), len(d.FragmentDefinitions), len(d.SelectionSets), len(d.Selections), len(d.Fields),
		len(d.InlineFragments), len(d.FragmentSpreads), len(d.Arguments), len(d.Directives), len(d.VariableDefinitions), len(d.VariableValues),
		len(d.StringValues), len(d.IntValues), len(d.FloatValues), len(d.EnumValues), len(d.ListValues), len(d.ObjectValues), len(d.ObjectFields),
		len(d.Types), len(d.ObjectTypeDefinitions), len(d.FieldDefinitions), len(d.InputValueDefinitions), len(d.InterfaceTypeDefinitions),
		len(d.EnumTypeDefinitions), len(d.EnumValueDefinitions), len(d.ScalarTypeDefinitions), len(d.UnionTypeDefinitions), len(d.InputObjectTypeDefinitions),
		len(d.DirectiveDefinitions), len(d.SchemaDefinitions), len(d.ObjectTypeExtensions), len(d.InterfaceTypeExtensions), len(d.EnumTypeExtensions),
		len(d.ScalarTypeExtensions), len(d.UnionTypeExtensions), len(d.InputObjectTypeExtensions), len(d.SchemaExtensions)}
	for i := range d.RootNodes {
		s = append(s, int(d.RootNodes[i].Kind))
	}
	return s
}

func zzParse(in []byte) (*ast.Document, bool) {
	doc := ast.NewSmallDocument()
	doc.Input.ResetInputBytes(in)
	report := operationreport.Report{}
	p := NewParser()
	p.shouldIndex = false
	p.Parse(doc, &report)
	return doc, !report.HasErrors()
}

// VerifC05Parse: H-C05c. Parser totality, references in range, print/parse fixed point.
func VerifC05Parse(mode, n, vocab int) {
	in := zzBuildInput(mode, n, vocab)
	verifObserveBytes("input", in)
	verifTerminates(3000000, "parser terminates")
	doc, ok := zzParse(in)
	if !ok {
		verifCover("rejected")
		return
	}
	verifCover("accepted")
	if len(doc.RootNodes) > 0 {
		verifCover("accepted non-empty")
	}
	zzCheckRefs(doc, len(in))

	var out1 bytes.Buffer
	err := astprinter.Print(doc, &out1)
	verifAssert(err == nil, "print succeeds")
	doc2, ok2 := zzParse(out1.Bytes())
	verifAssert(ok2, "compact print re-parses")
	if !ok2 {
		return
	}
	s1, s2 := zzShape(doc), zzShape(doc2)
	same := len(s1) == len(s2)
	for i := 0; same && i < len(s1); i++ {
		same = s1[i] == s2[i]
	}
	verifAssert(same, "parse(print(d)) has the shape of d")
	var out2 bytes.Buffer
	err = astprinter.Print(doc2, &out2)
	verifAssert(err == nil, "second print succeeds")
	verifAssert(bytes.Equal(out1.Bytes(), out2.Bytes()), "print is a fixed point after one round")

	var out3 bytes.Buffer
	err = astprinter.PrintIndent(doc, []byte("  "), &out3)
	verifAssert(err == nil, "indented print succeeds")
	doc3, ok3 := zzParse(out3.Bytes())
	verifAssert(ok3, "indented print re-parses")
	if !ok3 {
		return
	}
	s3 := zzShape(doc3)
	same = len(s1) == len(s3)
	for i := 0; same && i < len(s1); i++ {
		same = s1[i] == s3[i]
	}
	verifAssert(same, "parse(printIndent(d)) has the shape of d")
	var out4 bytes.Buffer
	err = astprinter.Print(doc3, &out4)
	verifAssert(err == nil && bytes.Equal(out1.Bytes(), out4.Bytes()), "compact print of the indented round trip equals the compact print")
}

// ---------------------------------------------------------------- grammar-directed generator (mode 4)

type zzGen struct {
	out     []byte
	budget  int
	kwNames bool
	opsOnly bool
}

func (g *zzGen) w(s string) { g.out = append(g.out, s...) }

func (g *zzGen) opt() bool {
	if g.budget <= 0 {
		return false
	}
	if nondetBool() {
		g.budget--
		return true
	}
	return false
}

// name: one symbolic letter (solver-decided), so that keyword-like and ordinary names share a path
// unless the code distinguishes them.
var zzKeywordNames = []string{"query", "fragment", "on", "mutation", "subscription", "true", "null", "type"}

func (g *zzGen) name() {
	if g.kwNames {
		// GraphQL keywords are not reserved: they are legal field/argument/alias names
		if c := nondetChoice(len(zzKeywordNames) + 1); c < len(zzKeywordNames) {
			g.w(zzKeywordNames[c])
			return
		}
	}
	b := nondetByte()
	verifAssume((b >= 'a' && b <= 'z') || (b >= 'A' && b <= 'Z') || b == '_')
	g.out = append(g.out, b)
}

func (g *zzGen) value(depth int) {
	k := 8
	if depth > 0 && g.budget > 0 {
		k = 10
	}
	switch nondetChoice(k) {
	case 0:
		g.w("$")
		g.name()
	case 1:
		d := nondetByte()
		verifAssume(d >= '0' && d <= '9')
		g.out = append(g.out, d)
	case 2:
		g.w("1.5")
	case 3:
		g.w("\"")
		b := nondetByte()
		verifAssume(b >= 0x20 && b != '"' && b != '\\' && b < 0x7f)
		g.out = append(g.out, b)
		g.w("\"")
	case 4:
		g.w("\"\"\"")
		b := nondetByte()
		verifAssume(b >= 0x20 && b != '"' && b != '\\' && b < 0x7f)
		g.out = append(g.out, b)
		g.w("\"\"\"")
	case 5:
		g.w("true")
	case 6:
		g.w("null")
	case 7:
		g.w("E")
	case 8:
		g.budget--
		g.w("[")
		g.value(depth - 1)
		if g.opt() {
			g.w(",")
			g.value(depth - 1)
		}
		g.w("]")
	case 9:
		g.budget--
		g.w("{")
		g.name()
		g.w(":")
		g.value(depth - 1)
		g.w("}")
	}
}

func (g *zzGen) directives() {
	if g.opt() {
		g.w("@")
		g.name()
		if g.opt() {
			g.w("(")
			g.name()
			g.w(":")
			g.value(1)
			g.w(")")
		}
	}
}

func (g *zzGen) typ() {
	switch nondetChoice(4) {
	case 0:
		g.w("T")
	case 1:
		g.w("T!")
	case 2:
		g.w("[T]")
	case 3:
		g.w("[T!]!")
	}
}

func (g *zzGen) selectionSet(depth int) {
	g.w("{")
	n := 1
	if g.opt() {
		n = 2
	}
	for i := 0; i < n; i++ {
		if i > 0 {
			g.w(" ")
		}
		k := 1
		if depth > 0 && g.budget > 0 {
			k = 3
		}
		switch nondetChoice(k + 1) {
		case 0: // field
			if g.opt() {
				g.name()
				g.w(":")
			}
			g.name()
			if g.opt() {
				g.w("(")
				g.name()
				g.w(":")
				g.value(1)
				g.w(")")
			}
			g.directives()
			if depth > 0 && g.opt() {
				g.selectionSet(depth - 1)
			}
		case 1: // fragment spread
			g.w("...")
			g.w("F")
			g.directives()
		case 2: // inline fragment with type condition
			g.budget--
			g.w("...on T")
			g.directives()
			g.selectionSet(depth - 1)
		case 3: // bare inline fragment
			g.budget--
			g.w("...")
			g.directives()
			g.selectionSet(depth - 1)
		}
	}
	g.w("}")
}

func (g *zzGen) operation() {
	switch nondetChoice(5) {
	case 0:
		g.selectionSet(2)
		return
	case 1:
		g.w("query")
	case 2:
		g.w("mutation")
	case 3:
		g.w("subscription")
	case 4:
		g.w("fragment F on T")
		g.directives()
		g.selectionSet(2)
		return
	}
	if g.opt() {
		g.w(" ")
		g.name()
	}
	if g.opt() {
		g.w("($")
		g.name()
		g.w(":")
		g.typ()
		if g.opt() {
			g.w("=")
			g.value(1)
		}
		g.directives()
		g.w(")")
	}
	g.directives()
	g.selectionSet(2)
}

func (g *zzGen) args() {
	if g.opt() {
		g.w("(a:")
		g.typ()
		if g.opt() {
			g.w("=")
			g.value(1)
		}
		g.directives()
		g.w(")")
	}
}

func (g *zzGen) description() {
	if g.opt() {
		if nondetBool() {
			g.w("\"d\" ")
		} else {
			g.w("\"\"\"d\"\"\" ")
		}
	}
}

func (g *zzGen) definition() {
	if g.opsOnly {
		g.operation()
		return
	}
	k := nondetChoice(16)
	if k < 9 {
		g.description()
	}
	switch k {
	case 0:
		g.w("type T")
		if g.opt() {
			g.w(" implements I")
			if g.opt() {
				g.w("&J")
			}
		}
		g.directives()
		if g.opt() {
			g.w("{")
			g.description()
			g.w("f")
			g.args()
			g.w(":")
			g.typ()
			g.directives()
			g.w("}")
		}
	case 1:
		g.w("interface I")
		if g.opt() {
			g.w(" implements J")
		}
		g.directives()
		if g.opt() {
			g.w("{f")
			g.args()
			g.w(":")
			g.typ()
			g.w("}")
		}
	case 2:
		g.w("union U")
		g.directives()
		if g.opt() {
			g.w("=A")
			if g.opt() {
				g.w("|B")
			}
		}
	case 3:
		g.w("enum E")
		g.directives()
		if g.opt() {
			g.w("{")
			g.description()
			g.w("A")
			g.directives()
			if g.opt() {
				g.w(" B")
			}
			g.w("}")
		}
	case 4:
		g.w("input N")
		g.directives()
		if g.opt() {
			g.w("{")
			g.description()
			g.w("a:")
			g.typ()
			if g.opt() {
				g.w("=")
				g.value(1)
			}
			g.directives()
			g.w("}")
		}
	case 5:
		g.w("scalar S")
		g.directives()
	case 6:
		g.w("directive@d")
		g.args()
		if g.opt() {
			g.w(" repeatable")
		}
		g.w(" on FIELD")
		if g.opt() {
			g.w("|QUERY")
		}
	case 7:
		g.w("schema")
		g.directives()
		g.w("{query:Q")
		if g.opt() {
			g.w(" mutation:M")
		}
		g.w("}")
	case 8:
		g.operation()
	case 9:
		g.w("extend type T")
		if g.opt() {
			g.w(" implements I")
		}
		g.directives()
		if g.opt() {
			g.w("{f")
			g.args()
			g.w(":")
			g.typ()
			g.w("}")
		}
	case 10:
		g.w("extend interface I")
		if g.opt() {
			g.w(" implements J")
		}
		g.directives()
		if g.opt() {
			g.w("{f")
			g.args()
			g.w(":")
			g.typ()
			g.w("}")
		}
	case 11:
		g.w("extend union U")
		g.directives()
		if g.opt() {
			g.w("=A")
		}
	case 12:
		g.w("extend enum E")
		g.directives()
		if g.opt() {
			g.w("{A}")
		}
	case 13:
		g.w("extend input N")
		g.directives()
		if g.opt() {
			g.w("{a:")
			g.typ()
			g.w("}")
		}
	case 14:
		g.w("extend scalar S")
		g.directives()
	case 15:
		g.w("extend schema")
		g.directives()
		if g.opt() {
			g.w("{mutation:M}")
		}
	}
}

// zzGenDocument: defs definitions, at most budget optional parts in total.
func zzGenDocument(defs, budget int) []byte {
	g := &zzGen{budget: budget}
	for i := 0; i < defs; i++ {
		if i > 0 {
			g.w(" ")
		}
		g.definition()
	}
	return g.out
}

// ---------------------------------------------------------------- H-C05d limits

func zzSetDepth(d *ast.Document, set int) int {
	max := 0
	for _, sref := range d.SelectionSets[set].SelectionRefs {
		sel := d.Selections[sref]
		inner := -1
		switch sel.Kind {
		case ast.SelectionKindField:
			if d.Fields[sel.Ref].HasSelections {
				inner = d.Fields[sel.Ref].SelectionSet
			}
		case ast.SelectionKindInlineFragment:
			if d.InlineFragments[sel.Ref].HasSelections {
				inner = d.InlineFragments[sel.Ref].SelectionSet
			}
		}
		if inner >= 0 {
			if x := zzSetDepth(d, inner); x > max {
				max = x
			}
		}
	}
	return max + 1
}

// zzRealDepthFields: the real selection depth (deepest nesting of selection sets in any operation or
// fragment) and the real number of fields of a parsed document.
func zzRealDepthFields(d *ast.Document) (int, int) {
	depth := 0
	for i := range d.OperationDefinitions {
		if d.OperationDefinitions[i].HasSelections {
			if x := zzSetDepth(d, d.OperationDefinitions[i].SelectionSet); x > depth {
				depth = x
			}
		}
	}
	for i := range d.FragmentDefinitions {
		if d.FragmentDefinitions[i].HasSelections {
			if x := zzSetDepth(d, d.FragmentDefinitions[i].SelectionSet); x > depth {
				depth = x
			}
		}
	}
	return depth, len(d.Fields)
}

// VerifC05Limits: H-C05d. A document whose real depth or field count exceeds a limit is never accepted by
// ParseWithLimits, for every limit pair (symbolic); the reported totals never under-count.
func VerifC05Limits(mode, n, vocab int) {
	in := zzBuildInput(mode, n, vocab)
	verifObserveBytes("input", in)
	maxDepth := nondetInt()
	maxFields := nondetInt()
	verifAssume(maxDepth >= 0 && maxDepth <= 6 && maxFields >= 0 && maxFields <= 8)
	doc := ast.NewSmallDocument()
	doc.Input.ResetInputBytes(in)
	report := operationreport.Report{}
	p := NewParser()
	p.shouldIndex = false
	stats, err := p.ParseWithLimits(TokenizerLimits{MaxDepth: maxDepth, MaxFields: maxFields}, doc, &report)
	if err != nil {
		verifCover("rejected by a limit")
		return
	}
	if report.HasErrors() {
		verifCover("rejected by syntax")
		return
	}
	verifCover("accepted")
	depth, fields := zzRealDepthFields(doc)
	verifAssert(!(maxDepth > 0 && depth > maxDepth), "accepted => real depth <= MaxDepth")
	verifAssert(!(maxFields > 0 && fields > maxFields), "accepted => real field count <= MaxFields")
	verifAssert(stats.TotalDepth >= depth, "TotalDepth never under-counts the real depth")
	verifAssert(stats.TotalFields >= fields, "TotalFields never under-counts the real fields")
}
