package PKG

import (
	"github.com/wundergraph/graphql-go-tools/v2/pkg/ast"
)

func zzIsHex(c byte) bool {
	return (c >= '0' && c <= '9') || (c >= 'a' && c <= 'f') || (c >= 'A' && c <= 'F')
}

// zzValidGraphQLString: body is a valid October-2021 StringValue body (between the quotes).
func zzValidGraphQLString(b []byte) bool {
	for i := 0; i < len(b); i++ {
		c := b[i]
		if c == '"' || c == '\n' || c == '\r' {
			return false
		}
		if c < 0x20 && c != '\t' {
			return false // not a SourceCharacter
		}
		if c == '\\' {
			if i+1 >= len(b) {
				return false
			}
			e := b[i+1]
			if e == 'u' {
				if i+5 >= len(b) || !zzIsHex(b[i+2]) || !zzIsHex(b[i+3]) || !zzIsHex(b[i+4]) || !zzIsHex(b[i+5]) {
					return false
				}
				i += 5
				continue
			}
			if e == '"' || e == '\\' || e == '/' || e == 'b' || e == 'f' || e == 'n' || e == 'r' || e == 't' {
				i++
				continue
			}
			return false
		}
	}
	return true
}

// zzJSONString checks that out is exactly one RFC 8259 string and returns its decoded bytes
// (\uXXXX is kept as the 6 source bytes: both decoders treat it alike).
func zzJSONString(out []byte) (bool, []byte) {
	if len(out) < 2 || out[0] != '"' || out[len(out)-1] != '"' {
		return false, nil
	}
	var dec []byte
	body := out[1 : len(out)-1]
	for i := 0; i < len(body); i++ {
		c := body[i]
		if c < 0x20 || c == '"' {
			return false, nil
		}
		if c == '\\' {
			if i+1 >= len(body) {
				return false, nil
			}
			e := body[i+1]
			switch e {
			case '"', '\\', '/':
				dec = append(dec, e)
			case 'b':
				dec = append(dec, 8)
			case 'f':
				dec = append(dec, 12)
			case 'n':
				dec = append(dec, 10)
			case 'r':
				dec = append(dec, 13)
			case 't':
				dec = append(dec, 9)
			case 'u':
				if i+5 >= len(body) || !zzIsHex(body[i+2]) || !zzIsHex(body[i+3]) || !zzIsHex(body[i+4]) || !zzIsHex(body[i+5]) {
					return false, nil
				}
				dec = append(dec, body[i:i+6]...)
				i += 4
			default:
				return false, nil
			}
			i++
			continue
		}
		dec = append(dec, c)
	}
	return true, dec
}

// zzGraphQLStringValue decodes a valid StringValue body the way the spec defines its value.
func zzGraphQLStringValue(b []byte) []byte {
	var dec []byte
	for i := 0; i < len(b); i++ {
		c := b[i]
		if c == '\\' {
			e := b[i+1]
			switch e {
			case '"', '\\', '/':
				dec = append(dec, e)
			case 'b':
				dec = append(dec, 8)
			case 'f':
				dec = append(dec, 12)
			case 'n':
				dec = append(dec, 10)
			case 'r':
				dec = append(dec, 13)
			case 't':
				dec = append(dec, 9)
			case 'u':
				dec = append(dec, b[i:i+6]...)
				i += 4
			}
			i++
			continue
		}
		dec = append(dec, c)
	}
	return dec
}

func zzFirstArgValue(doc *ast.Document) (ast.Value, bool) {
	if len(doc.Arguments) != 1 {
		return ast.Value{}, false
	}
	return doc.Arguments[0].Value, true
}

// VerifC15StringLiteral: H-C15a (strings). For every valid GraphQL string literal of n body bytes, its
// extracted JSON form is a valid JSON string with the same value.
func VerifC15StringLiteral(n int) {
	body := nondetBytes(n)
	verifAssume(zzValidGraphQLString(body))
	in := append([]byte(`{f(a:"`), body...)
	in = append(in, `")}`...)
	verifObserveBytes("input", in)
	doc, ok := zzParse(in)
	verifAssert(ok, "valid string literal parses")
	if !ok {
		return
	}
	v, ok2 := zzFirstArgValue(doc)
	verifAssert(ok2 && v.Kind == ast.ValueKindString, "argument value is a string")
	if !ok2 || v.Kind != ast.ValueKindString {
		return
	}
	out, err := doc.ValueToJSON(v)
	verifAssert(err == nil, "ValueToJSON succeeds")
	valid, dec := zzJSONString(out)
	if !valid {
		// classify for specific reporting
		raw := false
		for _, c := range body {
			if c < 0x20 {
				raw = true
			}
		}
		if raw {
			verifAssert(false, "extracted JSON is valid: raw control character copied into the JSON string")
		} else {
			verifAssert(false, "extracted JSON is valid")
		}
		return
	}
	verifCover("valid json")
	want := zzGraphQLStringValue(body)
	same := len(dec) == len(want)
	for i := 0; same && i < len(dec); i++ {
		same = dec[i] == want[i]
	}
	verifAssert(same, "JSON value equals the literal's value")
}

// VerifC15NumberLiteral: H-C15a (numbers). Every literal the parser accepts as Int/Float value extracts to a
// JSON number per RFC 8259 with the same text.
func VerifC15NumberLiteral(n int) {
	body := nondetBytes(n)
	// the GraphQL IntValue/FloatValue grammar coincides with RFC 8259 numbers
	verifAssume(zzJSONNumber(body))
	in := append([]byte(`{f(a:`), body...)
	in = append(in, `)}`...)
	verifObserveBytes("input", in)
	doc, ok := zzParse(in)
	verifAssert(ok, "valid number literal parses")
	if !ok {
		return
	}
	v, ok2 := zzFirstArgValue(doc)
	verifAssert(ok2 && (v.Kind == ast.ValueKindInteger || v.Kind == ast.ValueKindFloat), "argument value is a number")
	if !ok2 || (v.Kind != ast.ValueKindInteger && v.Kind != ast.ValueKindFloat) {
		return
	}
	verifCover("number")
	out, err := doc.ValueToJSON(v)
	verifAssert(err == nil, "ValueToJSON succeeds")
	same := len(out) == len(body)
	for i := 0; same && i < len(out); i++ {
		same = out[i] == body[i]
	}
	verifAssert(same, "extracted JSON number is the literal's text")
}

// zzJSONNumber: -? (0 | [1-9][0-9]*) (. [0-9]+)? ([eE] [+-]? [0-9]+)?
func zzJSONNumber(b []byte) bool {
	i := 0
	if i < len(b) && b[i] == '-' {
		i++
	}
	if i >= len(b) {
		return false
	}
	if b[i] == '0' {
		i++
	} else if b[i] >= '1' && b[i] <= '9' {
		for i < len(b) && b[i] >= '0' && b[i] <= '9' {
			i++
		}
	} else {
		return false
	}
	if i < len(b) && b[i] == '.' {
		i++
		j := i
		for i < len(b) && b[i] >= '0' && b[i] <= '9' {
			i++
		}
		if i == j {
			return false
		}
	}
	if i < len(b) && (b[i] == 'e' || b[i] == 'E') {
		i++
		if i < len(b) && (b[i] == '+' || b[i] == '-') {
			i++
		}
		j := i
		for i < len(b) && b[i] >= '0' && b[i] <= '9' {
			i++
		}
		if i == j {
			return false
		}
	}
	return i == len(b)
}

// ---- block strings

func zzIsWS(c byte) bool { return c == ' ' || c == '\t' }

func zzAllWS(l []byte) bool {
	for _, c := range l {
		if !zzIsWS(c) {
			return false
		}
	}
	return true
}

// zzBlockStringValue: the spec's BlockStringValue(rawValue) (October 2021 §2.9.4), with \""" -> """.
func zzBlockStringValue(raw []byte) []byte {
	// unescape \"""
	var un []byte
	for i := 0; i < len(raw); i++ {
		if raw[i] == '\\' && i+3 < len(raw) && raw[i+1] == '"' && raw[i+2] == '"' && raw[i+3] == '"' {
			un = append(un, '"', '"', '"')
			i += 3
			continue
		}
		un = append(un, raw[i])
	}
	// split into lines
	var lines [][]byte
	start := 0
	for i := 0; i < len(un); i++ {
		if un[i] == '\n' || un[i] == '\r' {
			lines = append(lines, un[start:i])
			if un[i] == '\r' && i+1 < len(un) && un[i+1] == '\n' {
				i++
			}
			start = i + 1
		}
	}
	lines = append(lines, un[start:])
	// common indent of all lines but the first that contain a non-whitespace character
	common := -1
	for i := 1; i < len(lines); i++ {
		l := lines[i]
		ind := 0
		for ind < len(l) && zzIsWS(l[ind]) {
			ind++
		}
		if ind < len(l) && (common == -1 || ind < common) {
			common = ind
		}
	}
	if common > 0 {
		for i := 1; i < len(lines); i++ {
			if len(lines[i]) >= common {
				lines[i] = lines[i][common:]
			} else {
				lines[i] = lines[i][len(lines[i]):]
			}
		}
	}
	for len(lines) > 0 && zzAllWS(lines[0]) {
		lines = lines[1:]
	}
	for len(lines) > 0 && zzAllWS(lines[len(lines)-1]) {
		lines = lines[:len(lines)-1]
	}
	var out []byte
	for i, l := range lines {
		if i > 0 {
			out = append(out, '\n')
		}
		out = append(out, l...)
	}
	return out
}

// VerifC15BlockString: H-C15a (block strings). The extracted JSON string of a block string literal decodes
// to the spec's BlockStringValue of its raw text. Body bytes: printable ASCII, space, tab, CR, LF.
func VerifC15BlockString(n int) {
	body := nondetBytes(n)
	for i := 0; i < n; i++ {
		c := body[i]
		verifAssume((c >= 0x20 && c < 0x7f) || c == '\t' || c == '\n' || c == '\r')
	}
	// a valid block string body contains no unescaped """ and does not end with a quote or backslash
	for i := 0; i+2 < n; i++ {
		if body[i] == '"' && body[i+1] == '"' && body[i+2] == '"' {
			verifAssume(i > 0 && body[i-1] == '\\')
		}
	}
	if n > 0 {
		verifAssume(body[n-1] != '"' && body[n-1] != '\\')
	}
	in := append([]byte(`{f(a:"""`), body...)
	in = append(in, `""")}`...)
	verifObserveBytes("input", in)
	doc, ok := zzParse(in)
	verifAssert(ok, "valid block string literal parses")
	if !ok {
		return
	}
	v, ok2 := zzFirstArgValue(doc)
	verifAssert(ok2 && v.Kind == ast.ValueKindString, "argument value is a string")
	if !ok2 || v.Kind != ast.ValueKindString {
		return
	}
	out, err := doc.ValueToJSON(v)
	verifAssert(err == nil, "ValueToJSON succeeds")
	valid, dec := zzJSONString(out)
	verifAssert(valid, "extracted JSON is valid")
	if !valid {
		return
	}
	verifCover("valid json")
	want := zzBlockStringValue(body)
	same := len(dec) == len(want)
	for i := 0; same && i < len(dec); i++ {
		same = dec[i] == want[i]
	}
	if !same {
		q, ws := false, zzAllWS(want) && len(want) == 0
		for _, c := range body {
			if c == '"' || c == '\\' {
				q = true
			}
		}
		switch {
		case q:
			verifAssert(false, "block string value equals BlockStringValue(raw): body with quote or backslash")
		case ws:
			verifAssert(false, "block string value equals BlockStringValue(raw): whitespace-only body")
		default:
			verifAssert(false, "block string value equals BlockStringValue(raw)")
		}
	}
}
