package PKG

import (
	"github.com/wundergraph/graphql-go-tools/v2/pkg/ast"
	"github.com/wundergraph/graphql-go-tools/v2/pkg/lexer/keyword"
)

// VerifC05LexerRead: H-C05a. Lexer totality, positions and progress on n arbitrary bytes.
func VerifC05LexerRead(n int) {
	in := nondetBytes(n)
	var input ast.Input
	input.ResetInputBytes(in)
	l := &Lexer{}
	l.SetInput(&input)
	for i := 0; i <= n+1; i++ {
		before := input.InputPosition
		tok := l.Read()
		verifAssert(tok.Literal.Start <= tok.Literal.End, "start<=end")
		verifAssert(int(tok.Literal.End) <= n, "end inside input")
		verifAssert(tok.TextPosition.LineStart >= 1 && tok.TextPosition.CharStart >= 1, "text position >= 1")
		verifAssert(input.InputPosition <= n, "cursor inside input")
		if tok.Keyword == keyword.EOF {
			verifCover("eof")
			return
		}
		verifAssert(input.InputPosition > before, "progress")
		switch tok.Keyword {
		case keyword.STRING:
			verifCover("string")
		case keyword.BLOCKSTRING:
			verifCover("blockstring")
		case keyword.FLOAT:
			verifCover("float")
		case keyword.INTEGER:
			verifCover("integer")
		case keyword.COMMENT:
			verifCover("comment")
		case keyword.SPREAD:
			verifCover("spread")
		case keyword.IDENT:
			verifCover("ident")
		}
	}
	verifAssert(false, "unwinding: more than n+1 tokens")
}
