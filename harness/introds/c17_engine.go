package PKG

import (
	"bytes"
	"context"
	"encoding/json"
	"strings"

	"github.com/wundergraph/astjson"

	"github.com/wundergraph/graphql-go-tools/v2/pkg/ast"
	"github.com/wundergraph/graphql-go-tools/v2/pkg/astnormalization"
	"github.com/wundergraph/graphql-go-tools/v2/pkg/astparser"
	"github.com/wundergraph/graphql-go-tools/v2/pkg/asttransform"
	"github.com/wundergraph/graphql-go-tools/v2/pkg/astvalidation"
	"github.com/wundergraph/graphql-go-tools/v2/pkg/engine/plan"
	"github.com/wundergraph/graphql-go-tools/v2/pkg/engine/postprocess"
	"github.com/wundergraph/graphql-go-tools/v2/pkg/engine/resolve"
	"github.com/wundergraph/graphql-go-tools/v2/pkg/introspection"
	"github.com/wundergraph/graphql-go-tools/v2/pkg/operationreport"
)

const zzIntroSchema = `
schema { query: Q mutation: Mu }
scalar S @specifiedBy(url: "https://s")
"the enum" enum E { P Q @deprecated(reason: "old") }
input In { f: Int = 7 g: [String!] n: In old: Int @deprecated }
interface N { id: ID! }
interface M implements N { id: ID! m: Int }
"type A" type A implements N & M { id: ID! m: Int f(a: Int = 3, b: In = {f: 1}, c: Int @deprecated(reason: "x")): [A!]! @deprecated s: S }
type B implements N { id: ID! z: S }
union U = A | B
type Q { root(a: [[Int!]] = [[1]]): U! e: E }
type Mu { do(i: In!): Boolean }
directive @d(x: Int = 1) repeatable on FIELD_DEFINITION | OBJECT
`

// ---- the introspection data as an object graph for the reference executor

func zzStrP(s *string) interface{} {
	if s == nil {
		return nil
	}
	b, _ := json.Marshal(*s)
	return string(b)
}
func zzStr(s string) interface{} { b, _ := json.Marshal(s); return string(b) }
func zzBool(b bool) interface{} {
	if b {
		return "true"
	}
	return "false"
}

type zzIntroGraph struct {
	data      *introspection.Data
	types     map[string]*zzO
	specNulls bool // interfaces / possibleTypes / inputFields are null for kinds they do not apply to (the spec's rule)
}

func (g *zzIntroGraph) typeRef(t *introspection.TypeRef) interface{} {
	if t == nil {
		return nil
	}
	if t.Kind == introspection.NONNULL || t.Kind == introspection.LIST {
		return &zzO{typ: "__Type", f: map[string]interface{}{"kind": zzStr(t.Kind.String()), "name": nil, "ofType": g.typeRef(t.OfType)}}
	}
	if t.Name != nil {
		if o, ok := g.types[*t.Name]; ok {
			return o
		}
	}
	return &zzO{typ: "__Type", f: map[string]interface{}{"kind": zzStr(t.Kind.String()), "name": zzStrP(t.Name)}}
}

func (g *zzIntroGraph) inputValues(vs []introspection.InputValue) []interface{} {
	out := []interface{}{}
	for i := range vs {
		v := vs[i]
		out = append(out, &zzO{typ: "__InputValue", f: map[string]interface{}{"name": zzStr(v.Name), "description": zzStr(v.Description), "type": g.typeRef(&v.Type),
			"defaultValue": zzStrP(v.DefaultValue), "isDeprecated": zzBool(v.IsDeprecated), "deprecationReason": zzStrP(v.DeprecationReason)}})
	}
	return out
}

func (g *zzIntroGraph) build() *zzO {
	g.types = map[string]*zzO{}
	for _, t := range g.data.Schema.Types {
		g.types[t.Name] = &zzO{typ: "__Type", f: map[string]interface{}{}}
	}
	refs := func(ts []introspection.TypeRef) []interface{} {
		out := []interface{}{}
		for i := range ts {
			out = append(out, g.typeRef(&ts[i]))
		}
		return out
	}
	var all []interface{}
	for _, t := range g.data.Schema.Types {
		o := g.types[t.Name]
		all = append(all, o)
		o.f["kind"] = zzStr(t.Kind.String())
		o.f["name"] = zzStr(t.Name)
		o.f["description"] = zzStr(t.Description)
		o.f["specifiedByURL"] = zzStrP(t.SpecifiedByURL)
		o.f["ofType"] = nil
		// the spec's null-vs-list rules per kind
		o.f["fields"], o.f["interfaces"], o.f["possibleTypes"], o.f["enumValues"], o.f["inputFields"] = nil, nil, nil, nil, nil
		if !g.specNulls {
			// as served: the data's JSON form has interfaces, possibleTypes and inputFields as (possibly empty) lists for every kind
			o.f["interfaces"], o.f["possibleTypes"], o.f["inputFields"] = refs(t.Interfaces), refs(t.PossibleTypes), g.inputValues(t.InputFields)
		}
		if t.Kind == introspection.OBJECT || t.Kind == introspection.INTERFACE {
			fs := []interface{}{}
			for i := range t.Fields {
				f := t.Fields[i]
				fs = append(fs, &zzO{typ: "__Field", f: map[string]interface{}{"name": zzStr(f.Name), "description": zzStr(f.Description), "args": g.inputValues(f.Args), "type": g.typeRef(&f.Type),
					"isDeprecated": zzBool(f.IsDeprecated), "deprecationReason": zzStrP(f.DeprecationReason)}})
			}
			o.f["fields"] = fs
			o.f["interfaces"] = refs(t.Interfaces)
		}
		if t.Kind == introspection.INTERFACE || t.Kind == introspection.UNION {
			o.f["possibleTypes"] = refs(t.PossibleTypes)
		}
		if t.Kind == introspection.ENUM {
			vs := []interface{}{}
			for _, v := range t.EnumValues {
				vs = append(vs, &zzO{typ: "__EnumValue", f: map[string]interface{}{"name": zzStr(v.Name), "description": zzStr(v.Description), "isDeprecated": zzBool(v.IsDeprecated), "deprecationReason": zzStrP(v.DeprecationReason)}})
			}
			o.f["enumValues"] = vs
		}
		if t.Kind == introspection.INPUTOBJECT {
			o.f["inputFields"] = g.inputValues(t.InputFields)
		}
	}
	var dirs []interface{}
	for _, d := range g.data.Schema.Directives {
		locs := []interface{}{}
		for _, l := range d.Locations {
			locs = append(locs, zzStr(l))
		}
		dirs = append(dirs, &zzO{typ: "__Directive", f: map[string]interface{}{"name": zzStr(d.Name), "description": zzStr(d.Description), "locations": locs, "args": g.inputValues(d.Args), "isRepeatable": zzBool(d.IsRepeatable)}})
	}
	schema := &zzO{typ: "__Schema", f: map[string]interface{}{"description": zzStrP(g.data.Schema.Description), "types": all, "directives": dirs, "subscriptionType": nil, "mutationType": nil}}
	q, m, s := g.data.Schema.TypeNames()
	schema.f["queryType"] = g.types[q]
	if m != "" {
		schema.f["mutationType"] = g.types[m]
	}
	if s != "" {
		schema.f["subscriptionType"] = g.types[s]
	}
	return schema
}

var zzIntroQueries = []string{
	`{ __type(name: "S") { name kind specifiedByURL } }`,
	`{ __type(name: "A") { name description kind interfaces { name } fields { name isDeprecated type { kind name ofType { kind name ofType { kind name ofType { name } } } } } } }`,
	`{ __type(name: "A") { fields(includeDeprecated: true) { name isDeprecated deprecationReason args { name defaultValue type { name } } } } }`,
	`{ __type(name: "A") { fields(includeDeprecated: true) { name args(includeDeprecated: true) { name isDeprecated deprecationReason } } } }`,
	`{ __type(name: "E") { enumValues { name } all: enumValues(includeDeprecated: true) { name isDeprecated deprecationReason } description } }`,
	`{ __type(name: "In") { kind inputFields { name defaultValue type { kind name ofType { kind name ofType { name } } } } fields { name } enumValues { name } } }`,
	`{ __type(name: "In") { inputFields(includeDeprecated: true) { name isDeprecated } } }`,
	`{ __type(name: "M") { kind interfaces { name } possibleTypes { name kind } fields { name } } }`,
	`{ __type(name: "U") { kind possibleTypes { name } fields { name } interfaces { name } } }`,
	`{ __type(name: "Nope") { name } }`,
	`{ t: __type(name: "B") { n: name f: fields { nm: name } } }`,
	`{ __schema { queryType { name } mutationType { name kind } subscriptionType { name } directives { name isRepeatable locations args { name defaultValue } } } }`,
	`{ __schema { types { name kind } } }`,
	`{ __type(name: "Q") { fields { name args { name defaultValue } type { kind ofType { name kind } } } } }`,
}

// VerifC17Engine: H-C17b. Introspection queries executed through the engine (introspection data source configuration
// from the factory, real planner, resolver and the data source's Load) answer exactly what the reference executor
// answers on the generated introspection data read as an object graph (includeDeprecated handled per the spec).
func VerifC17Engine() {
	verifExplore(0, 0)
	def, rep := astparser.ParseGraphqlDocumentString(zzIntroSchema)
	if rep.HasErrors() {
		panic(rep.Error())
	}
	if err := asttransform.MergeDefinitionWithBaseSchema(&def); err != nil {
		panic(err)
	}
	factory, err := NewIntrospectionConfigFactory(&def)
	verifAssert(err == nil, "introspection configuration is built")
	query := zzIntroQueries[nondetChoice(len(zzIntroQueries))]
	verifObserveString("input", query)

	op, rep := astparser.ParseGraphqlDocumentString(query)
	if rep.HasErrors() {
		panic(rep.Error())
	}
	var report operationreport.Report
	astnormalization.NewWithOpts(astnormalization.WithExtractVariables(), astnormalization.WithInlineFragmentSpreads(), astnormalization.WithRemoveFragmentDefinitions(), astnormalization.WithRemoveUnusedVariables()).NormalizeOperation(&op, &def, &report)
	astvalidation.DefaultOperationValidator().Validate(&op, &def, &report)
	if report.HasErrors() {
		verifObserveString("report", report.Error())
		verifAssert(false, "the introspection query is valid")
	}
	// e is served by a trivial second data source so that mixed operations plan
	cfg := plan.Configuration{DataSources: factory.BuildDataSourceConfigurations(), Fields: factory.BuildFieldConfigurations(), DisableResolveFieldPositions: true}
	p, perr := plan.NewPlanner(cfg)
	verifAssert(perr == nil, "planner is created")
	pl := p.Plan(&op, &def, "", &report)
	if report.HasErrors() {
		verifObserveString("report", report.Error())
		verifAssert(false, "planning an introspection query succeeds")
	}
	postprocess.NewProcessor().Process(pl)
	sp, ok := pl.(*plan.SynchronousResponsePlan)
	verifAssert(ok, "synchronous plan")
	r := resolve.New(context.Background(), resolve.ResolverOptions{MaxConcurrency: 2, PropagateSubgraphErrors: true})
	ctx := resolve.NewContext(context.Background())
	if len(op.Input.Variables) > 0 {
		ctx.Variables = astjson.MustParseBytes(op.Input.Variables)
	}
	var out bytes.Buffer
	_, rerr := r.ResolveGraphQLResponse(ctx, sp.Response, nil, &out)
	verifAssert(rerr == nil, "resolving succeeds")
	got := out.String()
	verifObserveString("response", got)

	// reference
	reference := func(specNulls bool) string {
		g := &zzIntroGraph{data: factory.introspectionData, specNulls: specNulls}
		schema := g.build()
		root := &zzO{typ: "Q", f: map[string]interface{}{"__schema": schema}}
		refOp, _ := astparser.ParseGraphqlDocumentString(query)
		ex := &zzExec{schema: &def, op: &refOp, vars: map[string]string{}}
		ex.resolveHook = func(obj *zzO, field string, args string) (interface{}, bool) {
			if obj.typ == "Q" && field == "__type" {
				name := ""
				if i := strings.Index(args, `name="`); i >= 0 {
					name = args[i+6:]
					name = name[:strings.Index(name, `"`)]
				}
				if t, ok := g.types[name]; ok {
					return t, true
				}
				return nil, true
			}
			if field == "fields" || field == "enumValues" || field == "args" || field == "inputFields" {
				l, isList := obj.f[field].([]interface{})
				if !isList {
					return obj.f[field], true
				}
				if strings.Contains(args, "includeDeprecated=true") {
					return l, true
				}
				keep := []interface{}{}
				for _, it := range l {
					if o, ok := it.(*zzO); ok && o.f["isDeprecated"] == "true" {
						continue
					}
					keep = append(keep, it)
				}
				return keep, true
			}
			return nil, false
		}
		return ex.run(root)
	}
	want := reference(false)
	verifObserveString("expected", want)
	var m map[string]json.RawMessage
	verifAssert(json.Unmarshal([]byte(got), &m) == nil, "response is JSON")
	_, hasErrors := m["errors"]
	verifAssert(!hasErrors, "introspection answers carry no errors")
	gotData := string(m["data"])
	canon := func(raw string) string {
		var v interface{}
		if err := json.Unmarshal([]byte(raw), &v); err != nil {
			return raw
		}
		b, _ := json.Marshal(v)
		return string(b)
	}
	aliased := strings.Contains(query, ": ") && (strings.Contains(query, "n: name") || strings.Contains(query, "all: enumValues"))
	if canon(gotData) != canon(want) {
		if aliased {
			verifAssert(false, "aliased fields below the introspection root field are answered")
		}
		verifAssert(false, "the engine's introspection answer equals the reference answer on the introspection data")
	}
	if spec := reference(true); canon(spec) != canon(want) {
		verifAssert(canon(gotData) == canon(spec), "interfaces, possibleTypes and inputFields are null for kinds they do not apply to")
	}
	verifCover("compared")
	_ = ast.InvalidRef
}
