package PKG

import (
	"bytes"
	"encoding/json"
	"sort"
	"strings"

	"github.com/wundergraph/graphql-go-tools/v2/pkg/astparser"
	"github.com/wundergraph/graphql-go-tools/v2/pkg/astprinter"
	"github.com/wundergraph/graphql-go-tools/v2/pkg/asttransform"
	"github.com/wundergraph/graphql-go-tools/v2/pkg/operationreport"
)

// ---- schema generator: writes SDL and, independently of any AST code, the description introspection must give

type zzSG struct {
	budget int
	sdl    strings.Builder
	want   []string // expected description lines of user-defined types and directives
}

func (g *zzSG) opt() bool {
	if g.budget > 0 && nondetBool() {
		g.budget--
		return true
	}
	return false
}

func (g *zzSG) pick(n int) int {
	if g.budget <= 0 {
		return 0
	}
	c := nondetChoice(n)
	if c > 0 {
		g.budget--
	}
	return c
}

// desc returns an optional description: SDL prefix and expected text
func (g *zzSG) desc(text string) (string, string) {
	switch g.pick(3) {
	case 1:
		return `"` + text + `" `, text
	case 2:
		return `"""` + text + `""" `, text
	}
	return "", ""
}

func (g *zzSG) deprecated() (string, string) {
	switch g.pick(3) {
	case 1:
		return ` @deprecated(reason: "old")`, ` deprecated="old"`
	case 2:
		return ` @deprecated`, ` deprecated="No longer supported"`
	}
	return "", ""
}

type zzTy struct{ sdl, want string }

// field / argument types over the generated names; want renders kind of the named type
func (g *zzSG) outType() zzTy {
	switch g.pick(6) {
	case 1:
		return zzTy{"[A!]!", "[A:OBJECT!]!"}
	case 2:
		return zzTy{"[[Int!]]", "[[Int:SCALAR!]]"}
	case 3:
		return zzTy{"N", "N:INTERFACE"}
	case 4:
		return zzTy{"U!", "U:UNION!"}
	case 5:
		return zzTy{"E", "E:ENUM"}
	}
	return zzTy{"String", "String:SCALAR"}
}

type zzArg struct{ sdl, want string }

func (g *zzSG) inArg(name string) zzArg {
	d, dw := g.desc("about " + name)
	dep, depw := g.deprecated()
	var ty zzTy
	def, defw := "", ""
	switch g.pick(7) {
	case 0:
		ty = zzTy{"Int", "Int:SCALAR"}
	case 1:
		ty, def, defw = zzTy{"Int", "Int:SCALAR"}, " = 3", "3"
	case 2:
		ty, def, defw = zzTy{"[[Int!]]", "[[Int:SCALAR!]]"}, " = [[1, 2], []]", "[[1,2],[]]"
	case 3:
		ty, def, defw = zzTy{"In", "In:INPUT_OBJECT"}, ` = {f: 1, g: ["a", "b"], n: {f: null}}`, `{f: 1,g: ["a","b"],n: {f: null}}`
	case 4:
		ty, def, defw = zzTy{"E!", "E:ENUM!"}, " = Q", "Q"
	case 5:
		ty, def, defw = zzTy{"String", "String:SCALAR"}, ` = "a\"b"`, `"a\"b"`
	case 6:
		ty, def, defw = zzTy{"S", "S:SCALAR"}, " = null", "null"
	}
	w := name + ": " + ty.want
	if defw != "" {
		w += " = " + defw
	}
	if dw != "" {
		w += " desc=" + dw
	}
	return zzArg{d + name + ": " + ty.sdl + def + dep, w + depw}
}

func (g *zzSG) field(name string, ty zzTy) (string, string) {
	d, dw := g.desc("about " + name)
	args, argsw := "", ""
	if g.opt() {
		a1 := g.inArg("a")
		args, argsw = "("+a1.sdl, "("+a1.want
		if g.opt() {
			a2 := g.inArg("b")
			args += ", " + a2.sdl
			argsw += ", " + a2.want
		}
		args += ")"
		argsw += ")"
	}
	dep, depw := g.deprecated()
	w := name + argsw + ": " + ty.want
	if dw != "" {
		w += " desc=" + dw
	}
	return d + name + args + ": " + ty.sdl + dep, w + depw
}

func (g *zzSG) schema() {
	w := func(s string) { g.sdl.WriteString(s + "\n") }
	// scalar
	if g.opt() {
		w(`scalar S @specifiedBy(url: "https://s")`)
		g.want = append(g.want, `SCALAR S specifiedBy="https://s"`)
	} else {
		w(`scalar S`)
		g.want = append(g.want, `SCALAR S`)
	}
	// enum
	{
		d, dw := g.desc("the enum")
		dep, depw := g.deprecated()
		w(d + `enum E { P Q` + dep + ` }`)
		line := "ENUM E"
		if dw != "" {
			line += " desc=" + dw
		}
		g.want = append(g.want, line+" values: P; Q"+depw)
	}
	// input object
	{
		f3 := ""
		f3w := ""
		if g.opt() {
			a := g.inArg("x")
			f3, f3w = " "+a.sdl, "; "+a.want
		}
		w(`input In { f: Int = 7 g: [String!] n: In` + f3 + ` }`)
		g.want = append(g.want, `INPUT_OBJECT In inputFields: f: Int:SCALAR = 7; g: [String:SCALAR!]; n: In:INPUT_OBJECT`+f3w)
	}
	// interfaces
	mImplementsN := g.opt()
	w(`interface N { id: ID! }`)
	if mImplementsN {
		w(`interface M implements N { id: ID! m: Int }`)
	} else {
		w(`interface M { m: Int }`)
	}
	aImplM := g.opt()
	nPossible := "A, B"
	if !aImplM && mImplementsN {
		nPossible = "A, B"
	}
	g.want = append(g.want, "INTERFACE N fields: id: ID:SCALAR! possibleTypes: "+nPossible)
	mLine := "INTERFACE M"
	if mImplementsN {
		mLine += " interfaces: N fields: id: ID:SCALAR!; m: Int:SCALAR"
	} else {
		mLine += " fields: m: Int:SCALAR"
	}
	if aImplM {
		mLine += " possibleTypes: A"
	}
	g.want = append(g.want, mLine)
	// objects
	{
		d, dw := g.desc("type A")
		impl := "N"
		implw := "N"
		extra, extraw := "", ""
		if aImplM {
			impl, implw = "N & M", "N, M"
			extra, extraw = " m: Int", "; m: Int:SCALAR"
		}
		f1, f1w := g.field("f", g.outType())
		f2, f2w := "", ""
		if g.opt() {
			var s string
			s, f2w = g.field("h", g.outType())
			f2, f2w = " "+s, "; "+f2w
		}
		w(d + `type A implements ` + impl + ` { id: ID!` + extra + ` ` + f1 + f2 + ` }`)
		line := "OBJECT A"
		if dw != "" {
			line += " desc=" + dw
		}
		g.want = append(g.want, line+" interfaces: "+implw+" fields: id: ID:SCALAR!"+extraw+"; "+f1w+f2w)
	}
	w(`type B implements N { id: ID! z: S }`)
	g.want = append(g.want, "OBJECT B interfaces: N fields: id: ID:SCALAR!; z: S:SCALAR")
	w(`union U = A | B`)
	g.want = append(g.want, "UNION U possibleTypes: A, B")
	// root types
	custom := g.opt()
	q := "Query"
	if custom {
		q = "Q"
	}
	f, fw := g.field("root", g.outType())
	w(`type ` + q + ` { ` + f + ` }`)
	g.want = append(g.want, "OBJECT "+q+" fields: "+fw)
	hasMutation := g.opt()
	if hasMutation {
		w(`type Mu { do(i: In!): Boolean }`)
		g.want = append(g.want, "OBJECT Mu fields: do(i: In:INPUT_OBJECT!): Boolean:SCALAR")
	}
	if custom || hasMutation {
		s := `schema { query: ` + q
		if hasMutation {
			s += ` mutation: Mu`
		}
		w(s + ` }`)
	}
	root := "ROOT query=" + q
	if hasMutation {
		root += " mutation=Mu"
	}
	g.want = append(g.want, root)
	// directive
	if g.opt() {
		rep := ""
		repw := ""
		if g.opt() {
			rep, repw = " repeatable", " repeatable"
		}
		a := g.inArg("x")
		w(`directive @d(` + a.sdl + `)` + rep + ` on FIELD_DEFINITION | OBJECT`)
		g.want = append(g.want, "DIRECTIVE d("+a.want+")"+repw+" on FIELD_DEFINITION, OBJECT")
	}
}

// ---- description of introspection data (only data structures of the package, no AST)

func zzTypeRef(t *TypeRef) string {
	if t == nil {
		return "?"
	}
	switch t.Kind {
	case NONNULL:
		return zzTypeRef(t.OfType) + "!"
	case LIST:
		return "[" + zzTypeRef(t.OfType) + "]"
	}
	if t.Name == nil {
		return "?"
	}
	return *t.Name + ":" + t.Kind.String()
}

func zzInputValues(vs []InputValue) string {
	var parts []string
	for i := range vs {
		v := vs[i]
		s := v.Name + ": " + zzTypeRef(&v.Type)
		if v.DefaultValue != nil {
			s += " = " + *v.DefaultValue
		}
		if v.Description != "" {
			s += " desc=" + v.Description
		}
		if v.IsDeprecated {
			r := "<nil>"
			if v.DeprecationReason != nil {
				r = *v.DeprecationReason
			}
			s += ` deprecated="` + r + `"`
		}
		parts = append(parts, s)
	}
	return strings.Join(parts, ", ")
}

func zzNames(ts []TypeRef) string {
	var n []string
	for i := range ts {
		if ts[i].Name != nil {
			n = append(n, *ts[i].Name)
		}
	}
	return strings.Join(n, ", ")
}

var zzBuiltin = map[string]bool{"Int": true, "Float": true, "String": true, "Boolean": true, "ID": true, "include": true, "skip": true, "deprecated": true, "specifiedBy": true, "defer": true, "stream": true, "oneOf": true}

// zzUnindent removes leading blanks of continuation lines (used only when comparing the two sides of the round
// trip: the generator exposes block-string descriptions with their source indentation - reported separately)
func zzUnindent(s string) string {
	lines := strings.Split(s, "\n")
	for i := 1; i < len(lines); i++ {
		lines[i] = strings.TrimLeft(lines[i], " \t")
	}
	return strings.Join(lines, "\n")
}

// zzCommonIndent: smallest indentation of the non-blank lines after the first (-1 if there is none)
func zzCommonIndent(s string) int {
	lines := strings.Split(s, "\n")
	min := -1
	for i := 1; i < len(lines); i++ {
		t := strings.TrimLeft(lines[i], " \t")
		if t == "" {
			continue
		}
		if n := len(lines[i]) - len(t); min < 0 || n < min {
			min = n
		}
	}
	return min
}

func zzDescribe(d *Data, all bool) []string {
	out0 := zzDescribe0(d, all)
	if all {
		for i := range out0 {
			out0[i] = zzUnindent(out0[i])
		}
	}
	return out0
}

func zzDescribe0(d *Data, all bool) []string {
	var out []string
	for _, t := range d.Schema.Types {
		if !all && (zzBuiltin[t.Name] || strings.HasPrefix(t.Name, "__")) {
			continue
		}
		line := t.Kind.String() + " " + t.Name
		if t.Description != "" {
			line += " desc=" + t.Description
		}
		if t.SpecifiedByURL != nil {
			line += ` specifiedBy="` + *t.SpecifiedByURL + `"`
		}
		if len(t.Interfaces) > 0 {
			line += " interfaces: " + zzNames(t.Interfaces)
		}
		if len(t.Fields) > 0 {
			var fs []string
			for i := range t.Fields {
				f := t.Fields[i]
				s := f.Name
				if len(f.Args) > 0 {
					s += "(" + zzInputValues(f.Args) + ")"
				}
				s += ": " + zzTypeRef(&f.Type)
				if f.Description != "" {
					s += " desc=" + f.Description
				}
				if f.IsDeprecated {
					r := "<nil>"
					if f.DeprecationReason != nil {
						r = *f.DeprecationReason
					}
					s += ` deprecated="` + r + `"`
				}
				fs = append(fs, s)
			}
			line += " fields: " + strings.Join(fs, "; ")
		}
		if len(t.InputFields) > 0 {
			line += " inputFields: " + strings.ReplaceAll(zzInputValues(t.InputFields), ", ", "; ")
		}
		if len(t.EnumValues) > 0 {
			var vs []string
			for _, v := range t.EnumValues {
				s := v.Name
				if v.IsDeprecated {
					r := "<nil>"
					if v.DeprecationReason != nil {
						r = *v.DeprecationReason
					}
					s += ` deprecated="` + r + `"`
				}
				vs = append(vs, s)
			}
			line += " values: " + strings.Join(vs, "; ")
		}
		if len(t.PossibleTypes) > 0 {
			line += " possibleTypes: " + zzNames(t.PossibleTypes)
		}
		out = append(out, line)
	}
	q, m, s := d.Schema.TypeNames()
	root := "ROOT query=" + q
	if m != "" {
		root += " mutation=" + m
	}
	if s != "" {
		root += " subscription=" + s
	}
	out = append(out, root)
	for _, dir := range d.Schema.Directives {
		if !all && zzBuiltin[dir.Name] {
			continue
		}
		line := "DIRECTIVE " + dir.Name
		if len(dir.Args) > 0 {
			line += "(" + zzInputValues(dir.Args) + ")"
		}
		if dir.IsRepeatable {
			line += " repeatable"
		}
		locs := append([]string(nil), dir.Locations...)
		sort.Strings(locs) // the locations are a set
		out = append(out, line+" on "+strings.Join(locs, ", "))
	}
	return out
}

func zzGenerate(sdl string) (*Data, bool) {
	def, rep := astparser.ParseGraphqlDocumentString(sdl)
	if rep.HasErrors() {
		verifObserveString("report", rep.Error())
		return nil, false
	}
	if err := asttransform.MergeDefinitionWithBaseSchema(&def); err != nil {
		verifObserveString("report", err.Error())
		return nil, false
	}
	var data Data
	var report operationreport.Report
	NewGenerator().Generate(&def, &report, &data)
	if report.HasErrors() {
		verifObserveString("report", report.Error())
		return nil, false
	}
	return &data, true
}

// VerifC17RoundTrip: H-C17a. For every generated schema (at most `budget` optional features): the introspection data
// lists exactly the schema's user-defined types, fields, arguments with types and default values, enum values,
// interfaces, possible types, directives, descriptions and deprecations (compared against a description written by
// the generator itself), and converting the data's JSON back into a document, printing it and generating again
// yields the same introspection data (all types, built-in ones included).
func VerifC17RoundTrip(budget int) {
	g := &zzSG{budget: budget}
	g.schema()
	sdl := g.sdl.String()
	verifObserveString("input", sdl)
	data, ok := zzGenerate(sdl)
	verifAssert(ok, "introspection generation succeeds")
	got := zzDescribe(data, false)
	want := append([]string(nil), g.want...)
	sort.Strings(got)
	sort.Strings(want)
	if strings.Join(got, "\n") != strings.Join(want, "\n") {
		for _, l := range got {
			found := false
			for _, w := range want {
				if w == l {
					found = true
				}
			}
			if !found {
				verifObserveString("unexpected", l)
			}
		}
		for _, w := range want {
			found := false
			for _, l := range got {
				if w == l {
					found = true
				}
			}
			if !found {
				verifObserveString("missing", w)
			}
		}
		verifAssert(false, "introspection data describes exactly the schema")
	}
	// round trip through JSON and the converter
	js, err := json.Marshal(data)
	verifAssert(err == nil, "introspection data marshals")
	conv := JsonConverter{}
	doc, err := conv.GraphQLDocument(bytes.NewReader(js))
	if err != nil {
		verifObserveString("report", err.Error())
	}
	verifAssert(err == nil, "introspection JSON converts back to a document")
	printed, err := astprinter.PrintString(doc)
	verifAssert(err == nil, "converted document prints")
	verifObserveString("converted", printed)
	def2, rep := astparser.ParseGraphqlDocumentString(printed)
	if rep.HasErrors() {
		verifObserveString("report", rep.Error())
	}
	verifAssert(!rep.HasErrors(), "converted schema re-parses")
	var data2 Data
	var report operationreport.Report
	NewGenerator().Generate(&def2, &report, &data2)
	verifAssert(!report.HasErrors(), "introspection of the converted schema succeeds")
	a, b := zzDescribe(data, true), zzDescribe(&data2, true)
	sort.Strings(a)
	sort.Strings(b)
	if strings.Join(a, "\n") != strings.Join(b, "\n") {
		for _, l := range a {
			found := false
			for _, w := range b {
				if w == l {
					found = true
				}
			}
			if !found {
				verifObserveString("lost", l)
			}
		}
		for _, w := range b {
			found := false
			for _, l := range a {
				if w == l {
					found = true
				}
			}
			if !found {
				verifObserveString("invented", w)
			}
		}
		verifAssert(false, "converting introspection back yields an equivalent schema")
	}
	verifCover("round trip compared")
	// descriptions are block string values: no common indentation left on continuation lines
	for _, t := range data.Schema.Types {
		verifAssert(zzCommonIndent(t.Description) <= 0, "descriptions are exposed as block string values (common indentation removed)")
		for i := range t.Fields {
			verifAssert(zzCommonIndent(t.Fields[i].Description) <= 0, "descriptions are exposed as block string values (common indentation removed)")
			for j := range t.Fields[i].Args {
				verifAssert(zzCommonIndent(t.Fields[i].Args[j].Description) <= 0, "descriptions are exposed as block string values (common indentation removed)")
			}
		}
	}
	for _, dir := range data.Schema.Directives {
		verifAssert(zzCommonIndent(dir.Description) <= 0, "descriptions are exposed as block string values (common indentation removed)")
		for j := range dir.Args {
			verifAssert(zzCommonIndent(dir.Args[j].Description) <= 0, "descriptions are exposed as block string values (common indentation removed)")
		}
	}
}
