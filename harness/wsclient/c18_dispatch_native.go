package PKG

import (
	"context"
	"net/http"
	"net/http/httptest"
	"strings"

	"github.com/coder/websocket"
)

// zzStubConn (native replay): a real client connection to a loopback websocket server that just waits.
func zzStubConn() *websocket.Conn {
	srv := httptest.NewServer(http.HandlerFunc(func(w http.ResponseWriter, r *http.Request) {
		c, err := websocket.Accept(w, r, nil)
		if err != nil {
			return
		}
		defer c.CloseNow()
		_, _, _ = c.Read(context.Background())
	}))
	c, _, err := websocket.Dial(context.Background(), "ws"+strings.TrimPrefix(srv.URL, "http"), nil)
	if err != nil {
		panic(err)
	}
	return c
}
