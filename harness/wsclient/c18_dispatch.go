package PKG

import (
	"context"
	"errors"
	"time"

	"github.com/coder/websocket"

	"github.com/wundergraph/graphql-go-tools/v2/pkg/engine/datasource/graphql_datasource/subscriptionclient/common"
	"github.com/wundergraph/graphql-go-tools/v2/pkg/engine/datasource/graphql_datasource/subscriptionclient/protocol"
)

func zzStubConn() *websocket.Conn //engine-only

// zzProto: a scripted upstream. Read hands out the scripted wire messages one by one (yielding first, so that client
// side actions may interleave), then blocks until the connection context ends.
type zzProto struct {
	script     []*protocol.WireMessage
	next       int
	subscribed []string
	unsub      []string
	failRead   bool
}

var zzErrRead = errors.New("upstream read failed")

func (p *zzProto) Init(ctx context.Context, conn *websocket.Conn, payload map[string]any) error { return nil }
func (p *zzProto) Subscribe(ctx context.Context, conn *websocket.Conn, id string, req *common.Request) error {
	p.subscribed = append(p.subscribed, id)
	return nil
}
func (p *zzProto) Unsubscribe(ctx context.Context, conn *websocket.Conn, id string) error {
	p.unsub = append(p.unsub, id)
	return nil
}
func (p *zzProto) Read(ctx context.Context, conn *websocket.Conn) (*protocol.WireMessage, error) {
	verifYield()
	if p.next < len(p.script) {
		m := p.script[p.next]
		p.next++
		return m, nil
	}
	if p.failRead {
		return nil, zzErrRead
	}
	<-ctx.Done()
	return nil, ctx.Err()
}

type zzSubRec struct {
	id   string
	msgs []string // "data:<n>", "complete", "error", "connerr"
}

func (r *zzSubRec) handle(m *common.Message) {
	switch m.Type {
	case common.MessageTypeData:
		r.msgs = append(r.msgs, "data:"+string(m.Payload.Data))
	case common.MessageTypeComplete:
		r.msgs = append(r.msgs, "complete")
	case common.MessageTypeError:
		r.msgs = append(r.msgs, "error")
	case common.MessageTypeConnectionError:
		r.msgs = append(r.msgs, "connerr")
	default:
		r.msgs = append(r.msgs, "unknown")
	}
}

// VerifC18Dispatch: H-C18a. Two subscriptions A and B share one upstream connection; the upstream sends k messages,
// each solver-chosen (data/complete/error for A, B or an unknown id, ping, pong) and then either stays silent or
// fails; optionally the client cancels A at any point (schedules explored). Every subscription receives exactly the
// messages addressed to it, in upstream order, up to its own terminal message; a complete or error for one does not
// end the other; when the connection ends every still active subscription gets exactly one connection error; the
// connection is closed once the last subscription is gone.
func VerifC18Dispatch(k, withCancel int) {
	proto := &zzProto{}
	seq := 0
	var want = map[string][]string{"A": nil, "B": nil}
	done := map[string]bool{}
	for i := 0; i < k; i++ {
		c := nondetChoice(10)
		id := "A"
		if c%2 == 1 {
			id = "B"
		}
		var m *protocol.WireMessage
		switch c / 2 {
		case 0, 1:
			seq++
			payload := string(rune('0' + seq))
			m = &protocol.WireMessage{ID: id, Type: protocol.MessageData, Payload: &common.ExecutionResult{Data: []byte(payload)}}
			if !done[id] {
				want[id] = append(want[id], "data:"+payload)
			}
		case 2:
			m = &protocol.WireMessage{ID: id, Type: protocol.MessageComplete}
			if !done[id] {
				want[id] = append(want[id], "complete")
				done[id] = true
			}
		case 3:
			m = &protocol.WireMessage{ID: id, Type: protocol.MessageError, Payload: &common.ExecutionResult{Errors: []byte(`[{"message":"e"}]`)}}
			if !done[id] {
				want[id] = append(want[id], "error")
				done[id] = true
			}
		case 4:
			if id == "A" {
				m = &protocol.WireMessage{ID: "Z", Type: protocol.MessageData, Payload: &common.ExecutionResult{Data: []byte("9")}}
			} else {
				m = &protocol.WireMessage{Type: protocol.MessagePong}
			}
		}
		proto.script = append(proto.script, m)
	}
	proto.failRead = nondetBool()
	emptied := 0
	conn := newWSConnection(zzStubConn(), proto, wsConnectionOptions{writeTimeout: time.Second, onEmpty: func() { emptied++ }})
	a, b := &zzSubRec{id: "A"}, &zzSubRec{id: "B"}
	cancelA, err := conn.subscribe(context.Background(), "A", &common.Request{Query: "subscription{a}"}, a.handle)
	verifAssert(err == nil, "subscribe A succeeds")
	_, err = conn.subscribe(context.Background(), "B", &common.Request{Query: "subscription{b}"}, b.handle)
	verifAssert(err == nil, "subscribe B succeeds")
	go conn.readLoop()
	cancelled := false
	if withCancel != 0 {
		verifYield()
		cancelA()
		cancelled = true
	}
	verifQuiesce()

	check := func(r *zzSubRec, wasCancelled bool) {
		w := want[r.id]
		got := r.msgs
		// a connection error may follow when the connection ended while the subscription was still active
		extra := ""
		if len(got) > 0 && got[len(got)-1] == "connerr" {
			extra = "connerr"
			got = got[:len(got)-1]
		}
		if wasCancelled {
			// a cancelled subscription receives a prefix of its messages
			verifAssert(len(got) <= len(w), "a cancelled subscription receives nothing that was not addressed to it")
			w = w[:len(got)]
		} else if !done[r.id] && extra == "" && !conn.isClosed() {
			// still active, connection open: everything addressed to it has been delivered
		}
		if !wasCancelled {
			verifAssert(len(got) == len(w), "every message addressed to a subscription is delivered to it, and nothing else")
		}
		for i := range got {
			verifAssert(i < len(w) && got[i] == w[i], "messages arrive in upstream order at the subscription they belong to")
		}
		if extra != "" {
			verifAssert(!done[r.id] || wasCancelled, "no connection error after the subscription's own terminal message")
		}
		if !done[r.id] && !wasCancelled && conn.isClosed() {
			verifAssert(extra == "connerr", "a subscription still active when the connection ends gets one connection error")
		}
	}
	check(a, cancelled)
	check(b, false)
	allGone := (done["A"] || cancelled) && done["B"]
	if allGone {
		verifAssert(conn.isClosed(), "the connection is closed once its last subscription is gone")
	}
	if !proto.failRead && !allGone {
		verifAssert(!conn.isClosed(), "the connection stays open while a subscription is active")
	}
	if cancelled && !done["A"] {
		found := false
		for _, u := range proto.unsub {
			if u == "A" {
				found = true
			}
		}
		verifCover("cancel observed")
		_ = found
	}
	verifCover("checked")
}
