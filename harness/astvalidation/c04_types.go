package PKG

import (
	"github.com/wundergraph/graphql-go-tools/v2/pkg/ast"
)

// zzChain builds a well-formed type chain of at most depth elements in d.Types with symbolic kinds:
// it ends at the first Named element, NonNull never wraps NonNull. Returns the kinds (for the oracle)
// and the symbolic name byte of the named type.
func zzChain(d *ast.Document, depth int) ([]ast.TypeKind, byte) {
	name := nondetByte()
	verifAssume(name == 'A' || name == 'B' || name == 'C')
	d.Input.ResetInputBytes([]byte{name})
	var kinds []ast.TypeKind
	prevNonNull := false
	for i := 0; i < depth; i++ {
		k := nondetInt()
		verifAssume(k >= 0 && k <= 2)
		last := i == depth-1
		switch {
		case k == 0 || last:
			verifAssume(k == 0)
			d.Types = append(d.Types, ast.Type{TypeKind: ast.TypeKindNamed, Name: ast.ByteSliceReference{Start: 0, End: 1}, OfType: -1})
			kinds = append(kinds, ast.TypeKindNamed)
			return kinds, name
		case k == 1:
			d.Types = append(d.Types, ast.Type{TypeKind: ast.TypeKindList, OfType: i + 1})
			kinds = append(kinds, ast.TypeKindList)
			prevNonNull = false
		default:
			verifAssume(!prevNonNull)
			d.Types = append(d.Types, ast.Type{TypeKind: ast.TypeKindNonNull, OfType: i + 1})
			kinds = append(kinds, ast.TypeKindNonNull)
			prevNonNull = true
		}
	}
	return kinds, name
}

// zzCompatible: the spec's AreTypesCompatible(variableType, locationType).
func zzCompatible(v []ast.TypeKind, vn byte, l []ast.TypeKind, ln byte) bool {
	if l[0] == ast.TypeKindNonNull {
		if v[0] != ast.TypeKindNonNull {
			return false
		}
		return zzCompatible(v[1:], vn, l[1:], ln)
	}
	if v[0] == ast.TypeKindNonNull {
		return zzCompatible(v[1:], vn, l, ln)
	}
	if l[0] == ast.TypeKindList {
		if v[0] != ast.TypeKindList {
			return false
		}
		return zzCompatible(v[1:], vn, l[1:], ln)
	}
	if v[0] == ast.TypeKindList {
		return false
	}
	return vn == ln
}

// zzUsageAllowed: the spec's IsVariableUsageAllowed.
func zzUsageAllowed(v []ast.TypeKind, vn byte, l []ast.TypeKind, ln byte, hasDefault bool) bool {
	if l[0] == ast.TypeKindNonNull && v[0] != ast.TypeKindNonNull {
		if !hasDefault {
			return false
		}
		return zzCompatible(v, vn, l[1:], ln)
	}
	return zzCompatible(v, vn, l, ln)
}

// VerifC04VariableUsage: H-C04a. operationTypeSatisfiesDefinitionType == IsVariableUsageAllowed for all
// well-formed type chains up to the given depth, all three names and both default flags.
func VerifC04VariableUsage(depth int) {
	op := ast.NewSmallDocument()
	def := ast.NewSmallDocument()
	vk, vn := zzChain(op, depth)
	lk, ln := zzChain(def, depth)
	hasDefault := nondetBool()
	v := &valuesVisitor{operation: op, definition: def}
	got := v.operationTypeSatisfiesDefinitionType(0, 0, hasDefault)
	want := zzUsageAllowed(vk, vn, lk, ln, hasDefault)
	if want {
		verifCover("allowed")
	} else {
		verifCover("not allowed")
	}
	verifAssert(got == want, "variable usage allowed iff spec IsVariableUsageAllowed")
}
