package PKG

import (
	"github.com/wundergraph/graphql-go-tools/v2/pkg/astparser"
	"github.com/wundergraph/graphql-go-tools/v2/pkg/asttransform"
	"github.com/wundergraph/graphql-go-tools/v2/pkg/operationreport"
)

const zzC04Schema = `
type Query { echo(i: Int, o: In, l: [Int], s: String, e: E): String u1: U1 u2: U2 n: N }
input In { f: Int g: [Int] n: In }
enum E { P Q }
type A implements N { id: ID! a: Int }
type B implements N { id: ID! b: Int }
type C { id: ID! c: Int }
type D { id: ID! d: Int }
interface N { id: ID! }
union U1 = A | B
union U2 = B | C
union U3 = C | D
union U4 = A
`

// argument spellings; equal class = same argument names and equal values (field order of an object literal and
// insignificant spelling do not matter)
var zzC04Args = []struct {
	text  string
	class int
}{
	{``, 0},
	{`(i: 1)`, 1},
	{`(i: 2)`, 2},
	{`(o: {f: 1})`, 3},
	{`(o: {f: 2})`, 4},
	{`(o: {f: 1, g: [1]})`, 5},
	{`(o: {f: 1, g: [2]})`, 6},
	{`(o: {n: {f: 1}})`, 7},
	{`(o: {n: {f: 2}})`, 8},
	{`(l: [1, 2])`, 9},
	{`(l: [1, 3])`, 10},
	{`(s: "a")`, 11},
	{`(s: "b")`, 12},
	{`(e: P)`, 13},
	{`(e: Q)`, 14},
	{`(i: 1, s: "a")`, 15},
	{`(s: "a", i: 1)`, 15},
	{`(i: 1 )`, 1},
}

var zzC04Members = map[string][]string{"U1": {"A", "B"}, "U2": {"B", "C"}, "U3": {"C", "D"}, "U4": {"A"}, "N": {"A", "B"}, "A": {"A"}, "B": {"B"}, "C": {"C"}, "D": {"D"}}

func zzIntersects(a, b string) bool {
	for _, x := range zzC04Members[a] {
		for _, y := range zzC04Members[b] {
			if x == y {
				return true
			}
		}
	}
	return false
}

func zzC04Validate(operation string) (valid bool, report string) {
	def, rep := astparser.ParseGraphqlDocumentString(zzC04Schema)
	if rep.HasErrors() {
		panic(rep.Error())
	}
	if err := asttransform.MergeDefinitionWithBaseSchema(&def); err != nil {
		panic(err)
	}
	op, rep := astparser.ParseGraphqlDocumentString(operation)
	if rep.HasErrors() {
		panic("harness: operation does not parse: " + operation)
	}
	var r operationreport.Report
	DefaultOperationValidator().Validate(&op, &def, &r)
	if r.HasErrors() {
		return false, r.Error()
	}
	return true, ""
}

// VerifC04Rules: H-C04b. Two structural rules decided against their spec definition on solver-chosen instances:
// (1) field selection merging: two selections of Query.echo under one response key are valid iff their arguments
// are the same (names and values; 18 spellings in 16 equivalence classes), under the same or different aliases;
// (2) fragment spread possibility: `... on T` inside a selection of abstract type P (4 unions, 1 interface,
// 4 objects) is valid iff the possible types of T and P intersect.
func VerifC04Rules(rule int) {
	if rule == 0 {
		i, j := nondetChoice(len(zzC04Args)), nondetChoice(len(zzC04Args))
		sameKey := nondetBool()
		k1, k2 := "echo", "echo"
		if !sameKey {
			k1, k2 = "x: echo", "y: echo"
		} else if nondetBool() {
			k1, k2 = "x: echo", "x: echo"
		}
		operation := "{ " + k1 + zzC04Args[i].text + " " + k2 + zzC04Args[j].text + " }"
		verifObserveString("input", operation)
		valid, report := zzC04Validate(operation)
		want := !sameKey || zzC04Args[i].class == zzC04Args[j].class
		if valid != want {
			verifObserveString("report", report)
			if want {
				verifAssert(false, "two selections with the same arguments under one response key can merge")
			}
			verifAssert(false, "two selections with different arguments under one response key are rejected")
		}
		if want {
			verifCover("mergeable")
		} else {
			verifCover("conflict")
		}
		return
	}
	parents := []struct{ field, typ string }{{"u1", "U1"}, {"u2", "U2"}, {"n", "N"}}
	conds := []string{"U1", "U2", "U3", "U4", "N", "A", "B", "C", "D"}
	p := parents[nondetChoice(len(parents))]
	c := conds[nondetChoice(len(conds))]
	operation := "{ " + p.field + " { ... on " + c + " { __typename } } }"
	// (fragment spreads are not used: the repository's validator is meant for normalized documents and reports any
	// remaining spread as a fragment cycle)
	verifObserveString("input", operation)
	valid, report := zzC04Validate(operation)
	want := zzIntersects(p.typ, c)
	if valid != want {
		verifObserveString("report", report)
		if want {
			verifAssert(false, "a fragment whose type can apply within the parent type is accepted")
		}
		verifAssert(false, "a fragment whose type can never apply within the parent type is rejected")
	}
	if want {
		verifCover("possible")
	} else {
		verifCover("impossible")
	}
}
