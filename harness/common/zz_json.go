package PKG

// zzSkipValue returns the index just after the JSON value starting at i (no validation beyond nesting).
func zzSkipValue(b []byte, i int) int {
	for i < len(b) && (b[i] == ' ' || b[i] == '\n' || b[i] == '\t') {
		i++
	}
	if i >= len(b) {
		return -1
	}
	switch b[i] {
	case '{', '[':
		depth := 0
		inStr := false
		for ; i < len(b); i++ {
			c := b[i]
			if inStr {
				if c == '\\' {
					i++
				} else if c == '"' {
					inStr = false
				}
				continue
			}
			if c == '"' {
				inStr = true
			} else if c == '{' || c == '[' {
				depth++
			} else if c == '}' || c == ']' {
				depth--
				if depth == 0 {
					return i + 1
				}
			}
		}
		return -1
	case '"':
		for i++; i < len(b); i++ {
			if b[i] == '\\' {
				i++
			} else if b[i] == '"' {
				return i + 1
			}
		}
		return -1
	}
	for i < len(b) && b[i] != ',' && b[i] != '}' && b[i] != ']' && b[i] != ' ' {
		i++
	}
	return i
}

// zzFields splits a JSON object text into keys and raw values; ok=false if it is not a well-formed object.
func zzFields(b []byte) (keys []string, vals [][]byte, ok bool) {
	i := 0
	if len(b) < 2 || b[0] != '{' || b[len(b)-1] != '}' {
		return nil, nil, false
	}
	i = 1
	if b[i] == '}' {
		return nil, nil, i == len(b)-1
	}
	for {
		if i >= len(b) || b[i] != '"' {
			return nil, nil, false
		}
		j := i + 1
		for j < len(b) && b[j] != '"' {
			j++
		}
		if j >= len(b) {
			return nil, nil, false
		}
		key := string(b[i+1 : j])
		i = j + 1
		if i >= len(b) || b[i] != ':' {
			return nil, nil, false
		}
		i++
		e := zzSkipValue(b, i)
		if e < 0 || e == i {
			return nil, nil, false
		}
		keys = append(keys, key)
		vals = append(vals, b[i:e])
		i = e
		if i < len(b) && b[i] == ',' {
			i++
			continue
		}
		if i == len(b)-1 && b[i] == '}' {
			return keys, vals, true
		}
		return nil, nil, false
	}
}

func zzGet(keys []string, vals [][]byte, k string) ([]byte, bool) {
	for i := range keys {
		if keys[i] == k {
			return vals[i], true
		}
	}
	return nil, false
}

