package PKG

// Harness API, symbolic side: body-less declarations intercepted by gosym.

func nondetBool() bool
func nondetByte() byte
func nondetInt() int
func nondetInt32() int32
func nondetInt64() int64
func nondetUint32() uint32
func nondetUint64() uint64
func nondetBytes(n int) []byte
func nondetChoice(n int) int
func verifAssume(c bool)
func verifAssert(c bool, label string)
func verifCover(label string)
func verifYield()
func verifConcreteInt(x int) int
func verifConcreteByte(x byte) byte
func verifConcreteBytes(b []byte)
func verifObserveInt(label string, v int)
func verifObserveBytes(label string, b []byte)
func verifObserveString(label string, s string)
func verifQuiesce()
func verifSetBudget(n int)
func verifExplore(mapOrderBudget int, sched int)
func verifNativeRepeat(n int) int
func verifFireTimers() int
func verifTerminates(budget int, label string)
func verifTag(n int) func()
