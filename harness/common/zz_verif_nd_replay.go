package PKG

// Harness API, native side: values come from a replay vector (VERIF_REPLAY=<file>),
// one unsigned integer per line in the order the engine's path consumed them.

import (
	"bufio"
	"encoding/hex"
	"fmt"
	"os"
	"runtime"
	"strconv"
	"strings"
)

var zzVec []uint64
var zzPos int
var zzLoaded bool

func zzLoad() {
	if zzLoaded {
		return
	}
	zzLoaded = true
	f, err := os.Open(os.Getenv("VERIF_REPLAY"))
	if err != nil {
		panic("VERIF-REPLAY-ERROR cannot open vector: " + err.Error())
	}
	defer f.Close()
	sc := bufio.NewScanner(f)
	for sc.Scan() {
		line := strings.TrimSpace(sc.Text())
		if line == "" || strings.HasPrefix(line, "#") {
			continue
		}
		v, err := strconv.ParseUint(line, 0, 64)
		if err != nil {
			panic("VERIF-REPLAY-ERROR bad vector line: " + line)
		}
		zzVec = append(zzVec, v)
	}
}

func zzNext() uint64 {
	zzLoad()
	if zzPos >= len(zzVec) {
		// beyond the recorded vector: the engine's path ended earlier (e.g. at the violation)
		zzPos++
		return 0
	}
	v := zzVec[zzPos]
	zzPos++
	return v
}

type zzAssumeFailed struct{}

func nondetBool() bool     { return zzNext() != 0 }
func nondetByte() byte     { return byte(zzNext()) }
func nondetInt() int       { return int(zzNext()) }
func nondetInt32() int32   { return int32(zzNext()) }
func nondetInt64() int64   { return int64(zzNext()) }
func nondetUint32() uint32 { return uint32(zzNext()) }
func nondetUint64() uint64 { return zzNext() }
func nondetBytes(n int) []byte {
	b := make([]byte, n)
	for i := range b {
		b[i] = byte(zzNext())
	}
	return b
}
func nondetChoice(n int) int { return int(zzNext()) }
func verifAssume(c bool) {
	if !c {
		fmt.Println("VERIF-ASSUME-FAIL")
		panic(zzAssumeFailed{})
	}
}
func verifAssert(c bool, label string) {
	if !c {
		fmt.Printf("VERIF-ASSERT-FAIL %s\n", label)
	}
}
func verifCover(label string)            { fmt.Printf("VERIF-COVER %s\n", label) }
func verifYield()                        { runtime.Gosched() }
func verifConcreteInt(x int) int         { return x }
func verifConcreteByte(x byte) byte      { return x }
func verifConcreteBytes(b []byte)        {}
func verifObserveInt(label string, v int) { fmt.Printf("VERIF-OBS %s=%d\n", label, v) }
func verifObserveBytes(label string, b []byte) {
	fmt.Printf("VERIF-OBS %s=%s\n", label, hex.EncodeToString(b))
}
func verifObserveString(label string, s string) {
	fmt.Printf("VERIF-OBS %s=%s\n", label, hex.EncodeToString([]byte(s)))
}
func verifQuiesce()       {}
func verifSetBudget(n int) {}

// verifTerminates: natively a watchdog; the replay driver treats a hang as reproduction.
func verifTerminates(budget int, label string) {
	fmt.Printf("VERIF-TERMINATES %s\n", label)
}
