package PKG

// Harness API, native side: values come from a replay vector (VERIF_REPLAY=<file>),
// one unsigned integer per line in the order the engine's path consumed them.

import (
	"bufio"
	"encoding/hex"
	"fmt"
	"os"
	"runtime"
	"strconv"
	"strings"
	"sync"
	"time"
)

var zzVec []uint64
var zzPos int
var zzLoaded bool

func zzLoad() {
	if zzLoaded {
		return
	}
	zzLoaded = true
	f, err := os.Open(os.Getenv("VERIF_REPLAY"))
	if err != nil {
		panic("VERIF-REPLAY-ERROR cannot open vector: " + err.Error())
	}
	defer f.Close()
	sc := bufio.NewScanner(f)
	for sc.Scan() {
		line := strings.TrimSpace(sc.Text())
		if line == "" || strings.HasPrefix(line, "#") {
			continue
		}
		v, err := strconv.ParseUint(line, 0, 64)
		if err != nil {
			panic("VERIF-REPLAY-ERROR bad vector line: " + line)
		}
		zzVec = append(zzVec, v)
	}
}

func zzNext() uint64 {
	zzLoad()
	if zzPos >= len(zzVec) {
		// beyond the recorded vector: the engine's path ended earlier (e.g. at the violation)
		zzPos++
		return 0
	}
	v := zzVec[zzPos]
	zzPos++
	return v
}

type zzAssumeFailed struct{}

func nondetBool() bool     { return zzNext() != 0 }
func nondetByte() byte     { return byte(zzNext()) }
func nondetInt() int       { return int(zzNext()) }
func nondetInt32() int32   { return int32(zzNext()) }
func nondetInt64() int64   { return int64(zzNext()) }
func nondetUint32() uint32 { return uint32(zzNext()) }
func nondetUint64() uint64 { return zzNext() }
func nondetBytes(n int) []byte {
	b := make([]byte, n)
	for i := range b {
		b[i] = byte(zzNext())
	}
	return b
}
func nondetChoice(n int) int { return int(zzNext()) }
func verifAssume(c bool) {
	if !c {
		fmt.Println("VERIF-ASSUME-FAIL")
		panic(zzAssumeFailed{})
	}
}
func verifAssert(c bool, label string) {
	if !c {
		fmt.Printf("VERIF-ASSERT-FAIL %s\n", label)
	}
}
func verifCover(label string)            { fmt.Printf("VERIF-COVER %s\n", label) }
func verifYield() {
	_, file, line, _ := runtime.Caller(1)
	if i := strings.LastIndexByte(file, '/'); i >= 0 {
		file = file[i+1:]
	}
	zzverifGate(file + ":" + strconv.Itoa(line))
}
func verifConcreteInt(x int) int         { return x }
func verifConcreteByte(x byte) byte      { return x }
func verifConcreteBytes(b []byte)        {}
func verifObserveInt(label string, v int) { fmt.Printf("VERIF-OBS %s=%d\n", label, v) }
func verifObserveBytes(label string, b []byte) {
	fmt.Printf("VERIF-OBS %s=%s\n", label, hex.EncodeToString(b))
}
func verifObserveString(label string, s string) {
	fmt.Printf("VERIF-OBS %s=%s\n", label, hex.EncodeToString([]byte(s)))
}
func verifQuiesce()       {}
func verifSetBudget(n int) {}
func verifExplore(mapOrderBudget int, sched int) {}
func verifNativeRepeat(n int) int { return n }

// verifFireTimers: natively time passes by itself; harnesses that fire timers configure short durations and the
// native side just waits long enough for them to expire.
func verifFireTimers() int { time.Sleep(60 * time.Millisecond); return 0 }

// verifTerminates: natively a watchdog; the replay driver treats a hang as reproduction.
func verifTerminates(budget int, label string) {
	fmt.Printf("VERIF-TERMINATES %s\n", label)
}

// ---- schedule replay: gates ----
// VERIF_GATES=<file> holds lines "parkG parkSite parkHit untilG untilKind untilSite untilHit". A goroutine
// (identified by its verifTag) that reaches its park site for the hit-th time is held there until the
// until-event has happened (or a grace period for "block" events / lost wake-ups has passed).

type zzGateStep struct {
	parkG              int
	parkSite           string
	parkHit            int
	untilG             int
	untilKind, untilSite string
	untilHit           int
}

var (
	zzGateMu    sync.Mutex
	zzGateCond  = sync.NewCond(&zzGateMu)
	zzGatePlan  []zzGateStep
	zzGateInit  bool
	zzTags      = map[int64]int{}    // goroutine id -> tag
	zzHits      = map[string]int{}   // "tag|site" -> hits
	zzExited    = map[int]bool{}
	zzLastEvent = map[int]time.Time{} // tag -> time of its last gate event
	zzParked    = map[int]bool{}      // tag -> currently held at a gate (that is not "blocked in the program")
)

func zzGoID() int64 {
	var buf [64]byte
	n := runtime.Stack(buf[:], false)
	// "goroutine 123 [running]:"
	f := strings.Fields(string(buf[:n]))
	if len(f) < 2 {
		return -1
	}
	id, _ := strconv.ParseInt(f[1], 10, 64)
	return id
}

func zzLoadGates() {
	if zzGateInit {
		return
	}
	zzGateInit = true
	f, err := os.Open(os.Getenv("VERIF_GATES"))
	if err != nil {
		return
	}
	defer f.Close()
	sc := bufio.NewScanner(f)
	for sc.Scan() {
		fs := strings.Fields(sc.Text())
		if len(fs) != 7 {
			continue
		}
		var st zzGateStep
		st.parkG, _ = strconv.Atoi(fs[0])
		st.parkSite = fs[1]
		st.parkHit, _ = strconv.Atoi(fs[2])
		st.untilG, _ = strconv.Atoi(fs[3])
		st.untilKind = fs[4]
		st.untilSite = fs[5]
		st.untilHit, _ = strconv.Atoi(fs[6])
		zzGatePlan = append(zzGatePlan, st)
	}
}

func verifTag(n int) func() {
	id := zzGoID()
	zzGateMu.Lock()
	zzLoadGates()
	zzTags[id] = n
	zzLastEvent[n] = time.Now()
	for _, st := range zzGatePlan {
		if st.parkG == n && st.parkSite == "@start" {
			zzWaitFor(st, n, "@start")
		}
	}
	zzLastEvent[n] = time.Now()
	zzGateMu.Unlock()
	return func() {
		zzGateMu.Lock()
		zzExited[n] = true
		zzGateCond.Broadcast()
		zzGateMu.Unlock()
	}
}

func zzGateResetForCase() {
	zzGateMu.Lock()
	zzGateInit = false
	zzGatePlan = nil
	zzTags = map[int64]int{}
	zzHits = map[string]int{}
	zzExited = map[int]bool{}
	zzLastEvent = map[int]time.Time{}
	zzParked = map[int]bool{}
	zzGateMu.Unlock()
}

// zzWaitFor holds the calling goroutine (zzGateMu held) until the step's until-event has happened.
func zzWaitFor(st zzGateStep, tag int, site string) {
	deadline := time.Now().Add(3 * time.Second)
	zzParked[tag] = true
	defer func() {
		zzParked[tag] = false
		zzLastEvent[tag] = time.Now()
	}()
	for {
		done := false
		switch st.untilKind {
		case "exit":
			done = zzExited[st.untilG]
		case "site":
			done = zzHits[strconv.Itoa(st.untilG)+"|"+st.untilSite] >= st.untilHit || zzExited[st.untilG]
		case "block":
			// the other goroutine blocked: approximated by "no gate event from it for 150ms"
			last, seen := zzLastEvent[st.untilG]
			done = (seen && !zzParked[st.untilG] && time.Since(last) > 150*time.Millisecond) || zzExited[st.untilG]
		}
		if done || time.Now().After(deadline) {
			if os.Getenv("VERIF_GATE_DEBUG") != "" {
				fmt.Printf("VERIF-GATE release g=%d site=%s done=%v\n", tag, site, done)
			}
			return
		}
		go func() {
			time.Sleep(20 * time.Millisecond)
			zzGateMu.Lock()
			zzGateCond.Broadcast()
			zzGateMu.Unlock()
		}()
		zzGateCond.Wait()
	}
}

// zzverifGate is inserted (by source rewriting of an overlay copy) before the statements the
// counterexample schedule preempts at or resumes from.
func zzverifGate(site string) {
	id := zzGoID()
	zzGateMu.Lock()
	zzLoadGates()
	tag, ok := zzTags[id]
	if !ok {
		tag = 0 // untagged goroutines count as the main goroutine
	}
	key := strconv.Itoa(tag) + "|" + site
	zzHits[key]++
	hit := zzHits[key]
	zzLastEvent[tag] = time.Now()
	zzGateCond.Broadcast()
	if os.Getenv("VERIF_GATE_DEBUG") != "" {
		fmt.Printf("VERIF-GATE hit g=%d site=%s hit=%d plan=%d\n", tag, site, hit, len(zzGatePlan))
	}
	for _, st := range zzGatePlan {
		if st.parkG != tag || st.parkSite != site || st.parkHit != hit {
			continue
		}
		zzWaitFor(st, tag, site)
	}
	zzGateMu.Unlock()
}
