package PKG

import (
	"bytes"
	"encoding/json"

	"github.com/wundergraph/graphql-go-tools/v2/pkg/ast"
)

// ---- reference GraphQL executor (the spec's ExecuteSelectionSet / CollectFields / CompleteValue) over an
// in-memory object graph. It serves both as the monolithic server owning all the data and, run against a
// subgraph's own schema, as that subgraph.

type zzO struct {
	typ  string
	f    map[string]interface{}     // nil | string (raw JSON scalar) | *zzO | []interface{}
	repr map[string]json.RawMessage // subgraph side: the representation this entity was looked up with
}

type zzExec struct {
	schema   *ast.Document
	op       *ast.Document
	vars     map[string]string // name -> raw JSON
	errors   int
	unknown  string // first selected field the schema does not define
	entities func(repr []byte) *zzO

	// computed fields (@requires): "Type.field" -> required field names and the function of their values.
	// The monolith reads the required fields from the object (through field(), so failures propagate), a subgraph
	// reads them from the representation it was sent; a missing one is recorded in missingRequired.
	resolveHook     func(obj *zzO, field string, args string) (interface{}, bool) // custom resolution (introspection)
	computed        map[string]zzComputed
	argAware        map[string]bool // "Type.field": the value also shows the coerced arguments
	subgraphSide    bool
	missingRequired string

	// failure model (C07): own maps "Type.field" to the subgraph owning it; an object is produced by the owner of
	// the field that returned it; a field whose owner differs from its object's producer needs a request of its own
	// (root request for Query fields, entity request otherwise), which fails when its owner is faulted.
	own          map[string]string
	coarse       bool            // all fields one subgraph serves at an object travel in one request
	curFailed    map[string]bool // coarse: subgraphs whose request at the current object fails or is skipped
	producer     string
	faultSub     string
	faultRootToo bool
	failedSent   int // number of failing requests the model says are needed
}

type zzComputed struct {
	requires []string
	fn       func(vals []string) string // raw JSON values ("null" for null) -> raw JSON
}

const zzProp = "\x00P"

type zzCollected struct {
	key  string
	refs []int
}

func (e *zzExec) directivesAllow(refs []int) bool {
	for _, d := range refs {
		name := e.op.DirectiveNameString(d)
		if name != "skip" && name != "include" {
			continue
		}
		v, ok := e.op.DirectiveArgumentValueByName(d, []byte("if"))
		if !ok {
			continue
		}
		b := false
		switch v.Kind {
		case ast.ValueKindBoolean:
			b = bool(e.op.BooleanValue(v.Ref))
		case ast.ValueKindVariable:
			b = e.fromValue(e.op, v).raw == "true"
		}
		if name == "skip" && b {
			return false
		}
		if name == "include" && !b {
			return false
		}
	}
	return true
}

func (e *zzExec) typeApplies(cond, runtime string) bool {
	if cond == runtime {
		return true
	}
	node, ok := e.schema.NodeByNameStr(cond)
	if !ok {
		return false
	}
	rt, ok := e.schema.NodeByNameStr(runtime)
	if !ok {
		return false
	}
	switch node.Kind {
	case ast.NodeKindInterfaceTypeDefinition:
		return e.schema.NodeImplementsInterface(rt, []byte(cond))
	case ast.NodeKindUnionTypeDefinition:
		names, _ := e.schema.UnionTypeDefinitionMemberTypeNames(node.Ref)
		for _, n := range names {
			if n == runtime {
				return true
			}
		}
	}
	return false
}

func (e *zzExec) collect(set int, typ string, out *[]zzCollected, visited map[string]bool) {
	for _, sel := range e.op.SelectionSets[set].SelectionRefs {
		s := e.op.Selections[sel]
		switch s.Kind {
		case ast.SelectionKindField:
			if e.op.FieldHasDirectives(s.Ref) && !e.directivesAllow(e.op.FieldDirectives(s.Ref)) {
				continue
			}
			key := e.op.FieldAliasOrNameString(s.Ref)
			found := false
			for i := range *out {
				if (*out)[i].key == key {
					(*out)[i].refs = append((*out)[i].refs, s.Ref)
					found = true
				}
			}
			if !found {
				*out = append(*out, zzCollected{key: key, refs: []int{s.Ref}})
			}
		case ast.SelectionKindInlineFragment:
			fr := e.op.InlineFragments[s.Ref]
			if fr.HasDirectives && !e.directivesAllow(fr.Directives.Refs) {
				continue
			}
			if e.op.InlineFragmentHasTypeCondition(s.Ref) && !e.typeApplies(e.op.InlineFragmentTypeConditionNameString(s.Ref), typ) {
				continue
			}
			if fr.HasSelections {
				e.collect(fr.SelectionSet, typ, out, visited)
			}
		case ast.SelectionKindFragmentSpread:
			name := e.op.FragmentSpreadNameString(s.Ref)
			if visited[name] {
				continue
			}
			visited[name] = true
			fd, ok := e.op.FragmentDefinitionRef([]byte(name))
			if !ok {
				continue
			}
			def := e.op.FragmentDefinitions[fd]
			cond := e.op.ResolveTypeNameString(def.TypeCondition.Type)
			if !e.typeApplies(cond, typ) {
				continue
			}
			e.collect(def.SelectionSet, typ, out, visited)
		}
	}
}

// selection executes the merged selection sets on obj; returns the JSON object or zzProp.
func (e *zzExec) selection(sets []int, obj *zzO) string {
	var fields []zzCollected
	visited := map[string]bool{}
	for _, s := range sets {
		e.collect(s, obj.typ, &fields, visited)
	}
	savedFailed := e.curFailed
	if e.own != nil && e.coarse {
		e.curFailed = e.failedSubgraphsAt(obj, fields)
	}
	defer func() { e.curFailed = savedFailed }()
	var out bytes.Buffer
	out.WriteByte('{')
	n := 0
	for _, f := range fields {
		if f.key == "__internal_typename" {
			// normalization's placeholder for a selection set emptied by @skip/@include; the resolver never
			// renders it, so it is not part of the response
			continue
		}
		if n > 0 {
			out.WriteByte(',')
		}
		n++
		v := e.field(f, obj)
		if v == zzProp {
			return zzProp
		}
		out.WriteString(`"` + f.key + `":` + v)
	}
	out.WriteByte('}')
	return out.String()
}

func (e *zzExec) field(f zzCollected, obj *zzO) string {
	name := e.op.FieldNameString(f.refs[0])
	if name == "__typename" {
		return `"` + obj.typ + `"`
	}
	if name == "_entities" && e.entities != nil {
		return e.entitiesField(f)
	}
	node, ok := e.schema.NodeByNameStr(obj.typ)
	if !ok {
		if e.unknown == "" {
			e.unknown = "type " + obj.typ
		}
		return "null"
	}
	fd, ok := e.schema.NodeFieldDefinitionByName(node, []byte(name))
	if !ok {
		if e.unknown == "" {
			e.unknown = obj.typ + "." + name
		}
		return "null"
	}
	val := obj.f[name]
	if e.resolveHook != nil {
		if v, ok := e.resolveHook(obj, name, e.coerceArgs(f.refs[0], fd)); ok {
			val = v
		}
	}
	if c, ok := e.computed[obj.typ+"."+name]; ok {
		vals := make([]string, len(c.requires))
		for i, rn := range c.requires {
			if e.subgraphSide {
				raw, has := obj.repr[rn]
				if !has {
					if e.missingRequired == "" {
						e.missingRequired = obj.typ + "." + name + " requires " + rn
					}
					raw = json.RawMessage("null")
				}
				vals[i] = string(bytes.TrimSpace(raw))
			} else {
				// the monolith resolves the required field like any selected field of the object
				rfd, ok := e.schema.NodeFieldDefinitionByName(node, []byte(rn))
				if !ok {
					vals[i] = "null"
					continue
				}
				rv := e.requiredValue(obj, rn, rfd)
				vals[i] = rv
			}
		}
		r := c.fn(vals)
		if r == "null" {
			val = nil
		} else {
			val = r
		}
		if !e.subgraphSide {
			for _, rn := range c.requires {
				if e.failingDeep(obj, rn) {
					val = nil // the request providing a required field failed: the dependent request is skipped
					e.failedSent++
				}
			}
		}
	}
	if e.argAware[obj.typ+"."+name] {
		base, _ := val.(string)
		b, _ := json.Marshal(base + e.coerceArgs(f.refs[0], fd))
		val = string(b)
	}
	if len(name) >= 4 && name[:4] == "echo" {
		b, _ := json.Marshal(e.coerceArgs(f.refs[0], fd))
		val = string(b)
	}
	saved := e.producer
	if e.own != nil {
		if owner := e.own[obj.typ+"."+name]; owner != "" {
			if owner != e.producer {
				if owner == e.faultSub && (obj.typ != "Query" || e.faultRootToo) {
					val = nil
					e.failedSent++
				} else if e.coarse && e.curFailed[owner] {
					val = nil
				}
			}
			e.producer = owner
		}
	}
	r := e.complete(e.schema.FieldDefinitionType(fd), f.refs, val)
	e.producer = saved
	return r
}

func (e *zzExec) complete(typeRef int, refs []int, v interface{}) string {
	t := e.schema.Types[typeRef]
	if t.TypeKind == ast.TypeKindNonNull {
		r := e.complete(t.OfType, refs, v)
		if r == "null" {
			e.errors++
			return zzProp
		}
		return r
	}
	if v == nil {
		return "null"
	}
	if t.TypeKind == ast.TypeKindList {
		l, ok := v.([]interface{})
		if !ok {
			e.errors++
			return "null"
		}
		var out bytes.Buffer
		out.WriteByte('[')
		for i, it := range l {
			if i > 0 {
				out.WriteByte(',')
			}
			r := e.complete(t.OfType, refs, it)
			if r == zzProp {
				return "null"
			}
			out.WriteString(r)
		}
		out.WriteByte(']')
		return out.String()
	}
	switch x := v.(type) {
	case string:
		return x
	case *zzO:
		var sets []int
		for _, r := range refs {
			if s, ok := e.op.FieldSelectionSet(r); ok {
				sets = append(sets, s)
			}
		}
		r := e.selection(sets, x)
		if r == zzProp {
			return "null"
		}
		return r
	}
	return "null"
}

func (e *zzExec) entitiesField(f zzCollected) string {
	arg, ok := e.op.FieldArgument(f.refs[0], []byte("representations"))
	if !ok {
		e.errors++
		return zzProp
	}
	val := e.op.ArgumentValue(arg)
	var raw []byte
	if val.Kind == ast.ValueKindVariable {
		raw = []byte(e.vars[e.op.VariableValueNameString(val.Ref)])
	} else {
		raw, _ = e.op.ValueToJSON(val)
	}
	var reprs []json.RawMessage
	if err := json.Unmarshal(raw, &reprs); err != nil {
		e.errors++
		return zzProp
	}
	var sets []int
	for _, r := range f.refs {
		if s, ok := e.op.FieldSelectionSet(r); ok {
			sets = append(sets, s)
		}
	}
	var out bytes.Buffer
	out.WriteByte('[')
	for i, r := range reprs {
		if i > 0 {
			out.WriteByte(',')
		}
		o := e.entities(r)
		if o == nil {
			out.WriteString("null")
			continue
		}
		var rm map[string]json.RawMessage
		_ = json.Unmarshal(r, &rm)
		o = &zzO{typ: o.typ, f: o.f, repr: rm}
		v := e.selection(sets, o)
		if v == zzProp {
			v = "null"
		}
		out.WriteString(v)
	}
	out.WriteByte(']')
	return out.String()
}

func (e *zzExec) run(root *zzO) string {
	for i := range e.op.RootNodes {
		if e.op.RootNodes[i].Kind == ast.NodeKindOperationDefinition {
			od := e.op.OperationDefinitions[e.op.RootNodes[i].Ref]
			r := e.selection([]int{od.SelectionSet}, root)
			if r == zzProp {
				return "null"
			}
			return r
		}
	}
	return "null"
}


// ---- argument values: CoerceArgumentValues / CoerceVariableValues of the spec, on a generic value tree

const (
	zvAbsent = iota
	zvNull
	zvScalar // raw JSON text (enum names as JSON strings)
	zvList
	zvObject
)

type zzV struct {
	kind int
	raw  string
	list []*zzV
	keys []string
	vals []*zzV
}

func (v *zzV) get(k string) *zzV {
	for i := range v.keys {
		if v.keys[i] == k {
			return v.vals[i]
		}
	}
	return &zzV{kind: zvAbsent}
}

func zzVFromJSON(raw []byte) *zzV {
	raw = bytes.TrimSpace(raw)
	if len(raw) == 0 {
		return &zzV{kind: zvAbsent}
	}
	switch raw[0] {
	case 'n':
		return &zzV{kind: zvNull}
	case '[':
		var elems []json.RawMessage
		_ = json.Unmarshal(raw, &elems)
		v := &zzV{kind: zvList}
		for _, e := range elems {
			v.list = append(v.list, zzVFromJSON(e))
		}
		return v
	case '{':
		v := &zzV{kind: zvObject}
		keys, vals, _ := zzFields(raw)
		for i := range keys {
			v.keys = append(v.keys, keys[i])
			v.vals = append(v.vals, zzVFromJSON(vals[i]))
		}
		return v
	}
	return &zzV{kind: zvScalar, raw: string(raw)}
}

// fromValue converts a literal of doc (the operation, with variables resolved, or the schema).
func (e *zzExec) fromValue(doc *ast.Document, v ast.Value) *zzV {
	switch v.Kind {
	case ast.ValueKindNull:
		return &zzV{kind: zvNull}
	case ast.ValueKindVariable:
		name := doc.VariableValueNameString(v.Ref)
		if raw, ok := e.vars[name]; ok {
			return zzVFromJSON([]byte(raw))
		}
		for i := range doc.VariableDefinitions {
			if doc.VariableDefinitionNameString(i) == name && doc.VariableDefinitionHasDefaultValue(i) && e.varDefLive(i) {
				return e.fromValue(doc, doc.VariableDefinitionDefaultValue(i))
			}
		}
		return &zzV{kind: zvAbsent}
	case ast.ValueKindList:
		out := &zzV{kind: zvList}
		for _, r := range doc.ListValues[v.Ref].Refs {
			out.list = append(out.list, e.fromValue(doc, doc.Values[r]))
		}
		return out
	case ast.ValueKindObject:
		out := &zzV{kind: zvObject}
		for _, r := range doc.ObjectValues[v.Ref].Refs {
			fv := e.fromValue(doc, doc.ObjectFieldValue(r))
			if fv.kind == zvAbsent {
				continue // a field whose variable is absent is treated as not provided
			}
			out.keys = append(out.keys, doc.ObjectFieldNameString(r))
			out.vals = append(out.vals, fv)
		}
		return out
	case ast.ValueKindEnum:
		return &zzV{kind: zvScalar, raw: `"` + doc.EnumValueNameString(v.Ref) + `"`}
	case ast.ValueKindString:
		// the literal's JSON form (escape handling of ValueToJSON is the subject of C15)
		b, _ := doc.ValueToJSON(v)
		return &zzV{kind: zvScalar, raw: string(b)}
	case ast.ValueKindBoolean:
		if bool(doc.BooleanValue(v.Ref)) {
			return &zzV{kind: zvScalar, raw: "true"}
		}
		return &zzV{kind: zvScalar, raw: "false"}
	case ast.ValueKindInteger:
		return &zzV{kind: zvScalar, raw: string(doc.IntValueRaw(v.Ref))}
	case ast.ValueKindFloat:
		return &zzV{kind: zvScalar, raw: string(doc.FloatValueRaw(v.Ref))}
	}
	return &zzV{kind: zvAbsent}
}

// varDefLive: the variable definition belongs to an operation of the document (definitions of removed
// operations may linger in the arrays).
func (e *zzExec) varDefLive(def int) bool {
	for i := range e.op.RootNodes {
		if e.op.RootNodes[i].Kind != ast.NodeKindOperationDefinition {
			continue
		}
		od := e.op.OperationDefinitions[e.op.RootNodes[i].Ref]
		if !od.HasVariableDefinitions {
			continue
		}
		for _, r := range od.VariableDefinitions.Refs {
			if r == def {
				return true
			}
		}
	}
	return false
}

// coerce renders v coerced to the schema type canonically; "" = not provided, "!" = coercion error.
func (e *zzExec) coerce(v *zzV, typeRef int) string {
	t := e.schema.Types[typeRef]
	if t.TypeKind == ast.TypeKindNonNull {
		r := e.coerce(v, t.OfType)
		if r == "null" {
			return "!"
		}
		return r
	}
	switch v.kind {
	case zvAbsent:
		return ""
	case zvNull:
		return "null"
	}
	if t.TypeKind == ast.TypeKindList {
		items := []*zzV{v}
		if v.kind == zvList {
			items = v.list
		}
		out := "["
		for i, it := range items {
			if i > 0 {
				out += ","
			}
			r := e.coerce(it, t.OfType)
			if r == "" {
				r = "null"
			}
			out += r
		}
		return out + "]"
	}
	name := e.schema.TypeNameString(typeRef)
	node, ok := e.schema.NodeByNameStr(name)
	if ok && node.Kind == ast.NodeKindInputObjectTypeDefinition {
		if v.kind != zvObject {
			return "!"
		}
		out := "{"
		first := true
		for _, ivd := range e.schema.InputObjectTypeDefinitions[node.Ref].InputFieldsDefinition.Refs {
			fname := e.schema.InputValueDefinitionNameString(ivd)
			fv := v.get(fname)
			var r string
			if fv.kind == zvAbsent {
				if !e.schema.InputValueDefinitionHasDefaultValue(ivd) {
					continue
				}
				r = e.coerce(e.fromValue(e.schema, e.schema.InputValueDefinitionDefaultValue(ivd)), e.schema.InputValueDefinitionType(ivd))
			} else {
				r = e.coerce(fv, e.schema.InputValueDefinitionType(ivd))
			}
			if r == "" {
				continue
			}
			if !first {
				out += ","
			}
			first = false
			out += `"` + fname + `":` + r
		}
		return out + "}"
	}
	if v.kind != zvScalar {
		return "!"
	}
	return v.raw
}

// coerceArgs renders the coerced argument values of a field canonically (schema order).
func (e *zzExec) coerceArgs(fieldRef, fd int) string {
	out := "("
	for _, ivd := range e.schema.FieldDefinitionArgumentsDefinitions(fd) {
		name := e.schema.InputValueDefinitionNameString(ivd)
		v := &zzV{kind: zvAbsent}
		if arg, ok := e.op.FieldArgument(fieldRef, []byte(name)); ok {
			v = e.fromValue(e.op, e.op.ArgumentValue(arg))
		}
		if v.kind == zvAbsent && e.schema.InputValueDefinitionHasDefaultValue(ivd) {
			v = e.fromValue(e.schema, e.schema.InputValueDefinitionDefaultValue(ivd))
		}
		r := e.coerce(v, e.schema.InputValueDefinitionType(ivd))
		if r == "" {
			continue
		}
		out += name + "=" + r + ";"
	}
	return out + ")"
}

// requiredValue resolves a scalar required field of obj on the monolith side, with the failure model applied
// (a required field whose request failed makes the dependent field null as well).
func (e *zzExec) requiredValue(obj *zzO, name string, fd int) string {
	if c, ok := e.computed[obj.typ+"."+name]; ok {
		node, _ := e.schema.NodeByNameStr(obj.typ)
		vals := make([]string, len(c.requires))
		for i, rn := range c.requires {
			rfd, ok := e.schema.NodeFieldDefinitionByName(node, []byte(rn))
			if !ok {
				vals[i] = "null"
				continue
			}
			vals[i] = e.requiredValue(obj, rn, rfd)
		}
		if e.failing(obj.typ, name) {
			return "null"
		}
		return c.fn(vals)
	}
	if e.failing(obj.typ, name) {
		return "null"
	}
	if s, ok := obj.f[name].(string); ok {
		return s
	}
	return "null"
}

// failing: under the failure model, does resolving Type.field on an object produced by e.producer need a request
// to the faulted subgraph?
func (e *zzExec) failing(typ, name string) bool {
	if e.own == nil {
		return false
	}
	owner := e.own[typ+"."+name]
	return owner != "" && owner != e.producer && owner == e.faultSub && (typ != "Query" || e.faultRootToo)
}

func (e *zzExec) failingDeep(obj *zzO, name string) bool {
	if e.failing(obj.typ, name) {
		return true
	}
	if c, ok := e.computed[obj.typ+"."+name]; ok {
		for _, rn := range c.requires {
			if e.failingDeep(obj, rn) {
				return true
			}
		}
	}
	return false
}

// failedSubgraphsAt (coarse model): the subgraphs whose request for obj fails - because the subgraph is faulted, or
// because the request carries a @requires field whose required data comes from a request that failed (the dependent
// request is skipped as a whole, taking the subgraph's other fields at this object with it).
func (e *zzExec) failedSubgraphsAt(obj *zzO, fields []zzCollected) map[string]bool {
	needed := map[string]bool{}
	var add func(name string)
	add = func(name string) {
		if needed[name] {
			return
		}
		needed[name] = true
		if c, ok := e.computed[obj.typ+"."+name]; ok {
			for _, r := range c.requires {
				add(r)
			}
		}
	}
	for _, f := range fields {
		add(e.op.FieldNameString(f.refs[0]))
	}
	failed := map[string]bool{}
	if obj.typ != "Query" || e.faultRootToo {
		failed[e.faultSub] = true
	}
	for changed := true; changed; {
		changed = false
		for name := range needed {
			c, ok := e.computed[obj.typ+"."+name]
			if !ok {
				continue
			}
			owner := e.own[obj.typ+"."+name]
			if owner == "" || failed[owner] {
				continue
			}
			for _, r := range c.requires {
				ro := e.own[obj.typ+"."+r]
				if ro != "" && ro != e.producer && failed[ro] {
					failed[owner] = true
					changed = true
				}
			}
		}
	}
	return failed
}
