package PKG

import (
	"context"
	"errors"
	"strings"
	"time"

	"github.com/gobwas/ws"

	"github.com/wundergraph/graphql-go-tools/execution/subscription"
	"github.com/wundergraph/graphql-go-tools/v2/pkg/ast"
	"github.com/wundergraph/graphql-go-tools/v2/pkg/engine/resolve"
)

// ---- stubs: a scripted client, an executor pool answering from the query text

type zzEvent struct {
	kind string // IN, OUT, CLOSE
	text string
	code int
}

type zzClient struct {
	script    []string
	next      int
	log       []zzEvent
	closed    bool
	brokenEnd bool // after the script the connection keeps failing reads (instead of being closed cleanly)
	endReads  int
}

const (
	zzFire    = "\x00FIRE"    // time passes: every pending timer expires
	zzReadErr = "\x00READERR" // one failing read
)

var zzErrReadFailed = errors.New("read failed")

func (c *zzClient) ReadBytesFromClient() ([]byte, error) {
	for {
		verifQuiesce() // the client waits: everything the server started gets to run first
		if c.closed {
			return nil, subscription.ErrTransportClientClosedConnection
		}
		if c.next >= len(c.script) {
			if !c.brokenEnd {
				return nil, subscription.ErrTransportClientClosedConnection
			}
			// persistent read failure; time passes between the attempts
			c.endReads++
			if c.endReads > 4 {
				return nil, subscription.ErrTransportClientClosedConnection
			}
			c.log = append(c.log, zzEvent{kind: "READERR"}, zzEvent{kind: "FIRE"})
			verifFireTimers()
			verifQuiesce()
			return nil, zzErrReadFailed
		}
		m := c.script[c.next]
		c.next++
		switch m {
		case zzFire:
			c.log = append(c.log, zzEvent{kind: "FIRE"})
			verifFireTimers()
			continue
		case zzReadErr:
			c.log = append(c.log, zzEvent{kind: "READERR"})
			return nil, zzErrReadFailed
		}
		c.log = append(c.log, zzEvent{kind: "IN", text: m})
		return []byte(m), nil
	}
}

func (c *zzClient) WriteBytesToClient(b []byte) error {
	if c.closed {
		return subscription.ErrTransportClientClosedConnection
	}
	c.log = append(c.log, zzEvent{kind: "OUT", text: string(b)})
	return nil
}
func (c *zzClient) IsConnected() bool { return !c.closed }
func (c *zzClient) Disconnect() error {
	c.closed = true
	c.log = append(c.log, zzEvent{kind: "CLOSE", code: 1000})
	return nil
}
func (c *zzClient) DisconnectWithReason(reason any) error {
	code := -1
	if r, ok := reason.(CloseReason); ok {
		code = zzCloseCode(r)
	}
	c.closed = true
	c.log = append(c.log, zzEvent{kind: "CLOSE", code: code})
	return nil
}

func zzCloseCode(r CloseReason) int {
	f := ws.Frame(r)
	if len(f.Payload) >= 2 {
		return int(f.Payload[0])<<8 | int(f.Payload[1])
	}
	return -1
}

type zzExecutor struct {
	query string
	ctx   context.Context
}

var zzErrExec = errors.New("execution failed")

func (e *zzExecutor) Execute(writer resolve.SubscriptionResponseWriter) error {
	if strings.Contains(e.query, "fail") {
		return zzErrExec
	}
	_, err := writer.Write([]byte(`{"data":{"x":1}}`))
	return err
}
func (e *zzExecutor) OperationType() ast.OperationType {
	switch {
	case strings.HasPrefix(e.query, "subscription"):
		return ast.OperationTypeSubscription
	case strings.HasPrefix(e.query, "mutation"):
		return ast.OperationTypeMutation
	}
	return ast.OperationTypeQuery
}
func (e *zzExecutor) SetContext(ctx context.Context) { e.ctx = ctx }
func (e *zzExecutor) Reset()                         {}

type zzPool struct{ gets, puts int }

func (p *zzPool) Get(payload []byte) (subscription.Executor, error) {
	p.gets++
	keys, vals, ok := zzFields(payload)
	if !ok {
		return nil, errors.New("bad payload")
	}
	q, _ := zzGet(keys, vals, "query")
	query := string(q)
	if len(query) >= 2 && query[0] == '"' {
		query = query[1 : len(query)-1]
	}
	return &zzExecutor{query: query}, nil
}
func (p *zzPool) Put(e subscription.Executor) error { p.puts++; return nil }

var zzTWSVocab = []string{
	`{"type":"connection_init"}`,
	`{"type":"connection_init","payload":{"a":1}}`,
	`{"id":"1","type":"subscribe","payload":{"query":"subscription { s }"}}`,
	`{"id":"1","type":"subscribe","payload":{"query":"{ q }"}}`,
	`{"id":"2","type":"subscribe","payload":{"query":"{ fail }"}}`,
	`{"id":"1","type":"complete"}`,
	`{"type":"ping","payload":{"p":1}}`,
	`{"type":"pong"}`,
	`{"type":"bogus"}`,
	`{"type":`,
	`{"id":"3","type":"subscribe","payload":"str"}`,
	`{"id":"2","type":"subscribe","payload":{"query":"mutation { m }"}}`,
	`{"id":"9","type":"complete"}`,
	`[]`,
}

func zzMsgField(msg, field string) string {
	keys, vals, ok := zzFields([]byte(msg))
	if !ok {
		return ""
	}
	v, has := zzGet(keys, vals, field)
	if !has {
		return ""
	}
	s := string(v)
	if len(s) >= 2 && s[0] == '"' {
		return s[1 : len(s)-1]
	}
	return s
}

// VerifC19TransportWS: H-C19a. k client messages, each solver-chosen from a 14-message alphabet (well-formed,
// malformed, out of order, duplicated), through the real UniversalProtocolHandler, ProtocolGraphQLTransportWSHandler
// and ExecutorEngine with a stub executor pool; the server's output trace must be accepted by the reference
// graphql-transport-ws state machine.
func VerifC19TransportWS(k, sched int) {
	zzC19TransportWS(k, sched, false)
}

// VerifC19TransportWSTimers: H-C19c. As H-C19a with time as part of the alphabet: "all pending timers expire now"
// and "one read fails" are two more symbols, and after the script the connection may keep failing reads.
func VerifC19TransportWSTimers(k, sched int) {
	zzC19TransportWS(k, sched, true)
}

func zzC19TransportWS(k, sched int, timers bool) {
	verifExplore(0, sched)
	client := &zzClient{}
	vocab := zzTWSVocab
	if timers {
		vocab = append(append([]string(nil), zzTWSVocab[:9]...), zzFire, zzReadErr)
		client.brokenEnd = nondetBool()
	}
	for i := 0; i < k; i++ {
		client.script = append(client.script, vocab[nondetChoice(len(vocab))])
	}
	verifObserveString("input", strings.ReplaceAll(strings.Join(client.script, " | "), "\x00", "#"))
	proto, err := NewProtocolGraphQLTransportWSHandlerWithOptions(client, ProtocolGraphQLTransportWSHandlerOptions{CustomKeepAliveInterval: 30 * time.Millisecond, CustomInitTimeOutDuration: 30 * time.Millisecond})
	verifAssert(err == nil, "protocol handler is created")
	pool := &zzPool{}
	h, err := subscription.NewUniversalProtocolHandlerWithOptions(client, proto, pool, subscription.UniversalProtocolHandlerOptions{CustomReadErrorTimeOut: 30 * time.Millisecond, CustomSubscriptionUpdateInterval: 30 * time.Millisecond})
	verifAssert(err == nil, "universal handler is created")
	verifTerminates(40000000, "the connection handler returns when the client is gone (never wedges)")
	h.Handle(context.Background())
	verifQuiesce()
	verifExplore(0, 0)
	if client.brokenEnd {
		verifAssert(client.endReads <= 3, "persistent read failures end the connection after the read-error time-out")
	}

	// ---- reference state machine over the unified log
	inited := false
	closed := false
	acks := 0
	active := map[string]string{} // id -> operation kind (sub, op)
	terminal := map[string]int{}  // id -> terminal messages since its last start
	started := map[string]bool{}
	var expectClose int  // close code the last IN must cause (0 none)
	var expectOut string // substring an OUT after the last IN must contain ("" none)
	gotExpectedOut := true
	check := func() {
		if expectClose != 0 {
			verifAssert(false, "the prescribed close code is sent")
		}
		if !gotExpectedOut {
			verifAssert(false, "the prescribed reply is sent")
		}
	}
	for _, ev := range client.log {
		var line string
		switch ev.kind {
		case "IN":
			line = "IN " + ev.text
		case "OUT":
			line = "OUT " + ev.text
		case "FIRE", "READERR":
			line = ev.kind
		default:
			line = "CLOSE " + string(rune('0'+ev.code/1000)) + string(rune('0'+ev.code/100%10)) + string(rune('0'+ev.code/10%10)) + string(rune('0'+ev.code%10))
		}
		verifObserveString("trace", line)
	}
	for _, ev := range client.log {
		switch ev.kind {
		case "IN":
			check()
			verifAssert(!closed, "nothing is read after the connection was closed")
			expectClose, expectOut, gotExpectedOut = 0, "", true
			typ := zzMsgField(ev.text, "type")
			id := zzMsgField(ev.text, "id")
			_, _, isObj := zzFields([]byte(ev.text))
			switch {
			case ev.text == `{"type":`:
				expectClose = 4400
			case !isObj:
				// valid JSON that is not a message object: no prescribed reaction asserted
			case typ == "connection_init":
				if inited {
					expectClose = 4429
				} else {
					inited = true
					expectOut, gotExpectedOut = `"type":"connection_ack"`, false
				}
			case typ == "subscribe":
				if !inited {
					expectClose = 4401
				} else if _, dup := active[id]; dup {
					expectClose = 4409
				} else if strings.Contains(ev.text, `"payload":"str"`) {
					// malformed payload: not started; no prescribed reaction asserted
				} else {
					kind := "op"
					if strings.Contains(ev.text, "subscription {") {
						kind = "sub"
					}
					active[id] = kind
					started[id] = true
					terminal[id] = 0
				}
			case typ == "complete":
				if active[id] == "sub" {
					delete(active, id)
				}
			case typ == "ping":
				expectOut, gotExpectedOut = `"type":"pong"`, false
			case typ == "pong":
			default:
				expectClose = 4400
			}
		case "FIRE":
			check()
			expectClose, expectOut, gotExpectedOut = 0, "", true
			if !inited && !closed {
				expectClose = 4408 // connection initialisation timeout
			}
		case "READERR":
			check()
			expectClose, expectOut, gotExpectedOut = 0, "", true
		case "OUT":
			verifAssert(!closed, "nothing is sent after the connection was closed")
			typ := zzMsgField(ev.text, "type")
			id := zzMsgField(ev.text, "id")
			if expectOut != "" && strings.Contains(ev.text, expectOut) {
				gotExpectedOut = true
			}
			switch typ {
			case "connection_ack":
				acks++
				verifAssert(acks == 1 && inited, "connection_ack is sent once, after connection_init")
			case "next", "error", "complete":
				verifAssert(inited, "no operation output before a successful connection_init")
				verifAssert(started[id], "output only for an id the client subscribed")
				verifAssert(terminal[id] == 0, "nothing is sent for an id after the server's terminal message for it")
				if typ != "next" {
					terminal[id]++
					if active[id] == "op" {
						delete(active, id)
					}
				}
			case "pong", "ping":
			default:
				verifAssert(false, "only message types of the protocol are sent")
			}
		case "CLOSE":
			if expectClose != 0 {
				verifAssert(ev.code == expectClose, "the prescribed close code is sent")
				expectClose = 0
			} else {
				verifAssert(closed, "the server closes the connection only for a prescribed reason")
			}
			closed = true
		}
	}
	check()
	if !closed {
		// every query/mutation that was started has got its terminal message
		for id, kind := range active {
			if kind == "op" {
				verifObserveString("unterminated", id)
				verifAssert(false, "every started operation gets exactly one terminal message")
			}
		}
		verifCover("connection stayed open")
	} else {
		verifCover("connection closed by the server")
	}
}
