package PKG

import (
	"context"
	"strings"

	"github.com/wundergraph/graphql-go-tools/execution/subscription"
)

var zzGWSVocab = []string{
	`{"type":"connection_init"}`,
	`{"id":"1","type":"start","payload":{"query":"subscription { s }"}}`,
	`{"id":"1","type":"start","payload":{"query":"{ q }"}}`,
	`{"id":"2","type":"start","payload":{"query":"{ fail }"}}`,
	`{"id":"1","type":"stop"}`,
	`{"type":"connection_terminate"}`,
	`{"type":"bogus"}`,
	`{"type":`,
	`{"id":"9","type":"stop"}`,
	`{"id":"2","type":"start","payload":{"query":"mutation { m }"}}`,
	`[]`,
}

// VerifC19GraphQLWS: H-C19b. As H-C19a for the graphql-ws (subscriptions-transport-ws) protocol handler.
func VerifC19GraphQLWS(k, sched int) {
	verifExplore(0, sched)
	client := &zzClient{}
	for i := 0; i < k; i++ {
		client.script = append(client.script, zzGWSVocab[nondetChoice(len(zzGWSVocab))])
	}
	verifObserveString("input", strings.Join(client.script, " | "))
	proto, err := NewProtocolGraphQLWSHandler(client)
	verifAssert(err == nil, "protocol handler is created")
	h, err := subscription.NewUniversalProtocolHandler(client, proto, &zzPool{})
	verifAssert(err == nil, "universal handler is created")
	verifTerminates(40000000, "the connection handler returns when the client is gone (never wedges)")
	h.Handle(context.Background())
	verifQuiesce()
	verifExplore(0, 0)
	for _, ev := range client.log {
		verifObserveString("trace", ev.kind+" "+ev.text)
	}
	active := map[string]string{}
	started := map[string]bool{}
	terminal := map[string]int{}
	closed := false
	expectOut, gotExpectedOut := "", true
	for _, ev := range client.log {
		switch ev.kind {
		case "IN":
			verifAssert(gotExpectedOut, "the prescribed reply is sent")
			verifAssert(!closed, "nothing is read after the connection was closed")
			expectOut, gotExpectedOut = "", true
			typ := zzMsgField(ev.text, "type")
			id := zzMsgField(ev.text, "id")
			_, _, isObj := zzFields([]byte(ev.text))
			switch {
			case ev.text == `{"type":`:
				expectOut, gotExpectedOut = `"type":"error"`, false
			case !isObj:
			case typ == "connection_init":
				expectOut, gotExpectedOut = `"type":"connection_ack"`, false
			case typ == "start":
				if _, dup := active[id]; dup {
					// the duplicate is refused with an error carrying the id; the running operation goes on
					expectOut, gotExpectedOut = `"type":"error"`, false
					terminal[id] = -1 // one error message for the id is not terminal for the running operation
				} else {
					kind := "op"
					if strings.Contains(ev.text, "subscription {") {
						kind = "sub"
					}
					active[id] = kind
					started[id] = true
					terminal[id] = 0
				}
			case typ == "stop":
				if active[id] == "sub" {
					delete(active, id)
				}
			case typ == "connection_terminate":
				for id, kind := range active {
					if kind == "sub" {
						delete(active, id)
					}
				}
			default:
				expectOut, gotExpectedOut = `"type":"connection_error"`, false
			}
		case "OUT":
			verifAssert(!closed, "nothing is sent after the connection was closed")
			typ := zzMsgField(ev.text, "type")
			id := zzMsgField(ev.text, "id")
			if expectOut != "" && strings.Contains(ev.text, expectOut) {
				gotExpectedOut = true
			}
			switch typ {
			case "connection_ack", "connection_error", "ka":
			case "data", "error", "complete":
				if id == "" {
					verifAssert(typ == "error", "only errors may come without an operation id")
					break
				}
				verifAssert(started[id], "output only for an id the client started")
				verifAssert(terminal[id] <= 0, "nothing is sent for an id after the server's terminal message for it")
				if typ != "data" {
					terminal[id]++
					if terminal[id] > 0 && active[id] == "op" {
						delete(active, id)
					}
				}
			default:
				verifAssert(false, "only message types of the protocol are sent")
			}
		case "CLOSE":
			closed = true
		}
	}
	verifAssert(gotExpectedOut, "the prescribed reply is sent")
	if !closed {
		for id, kind := range active {
			if kind == "op" {
				verifObserveString("unterminated", id)
				verifAssert(false, "every started operation gets exactly one terminal message")
			}
		}
	}
	verifCover("trace accepted")
}
