package PKG

// VerifMergeTest: engine self-check — merged evaluation of the lexer's pure predicates
// agrees with forked evaluation of an inline reference on every byte.
func VerifMergeTest() {
	b := nondetByte()
	l := &lexer{}
	r := rune(b)
	got := l.isInvalidTokenCharacter(r)
	want := false
	for _, c := range []rune{'(', ')', '<', '>', '@', ',', ';', ':', '\\', '"', '/', '[', ']', '?', '=', '{', '}', ' ', '\t'} {
		if r == c {
			want = true
		}
	}
	verifAssert(got == want, "isInvalidTokenCharacter")
	got2 := l.isForbiddenCharacter(r)
	want2 := false
	if r != 9 {
		if r <= 0x1f {
			want2 = true
		}
		if r == 0x7f {
			want2 = true
		}
	}
	verifAssert(got2 == want2, "isForbiddenCharacter")
	got3 := l.isPrintableCharacter(r)
	want3 := false
	if r >= 0x20 {
		if r <= 0x7e {
			want3 = true
		}
	}
	verifAssert(got3 == want3, "isPrintable")
	got4 := l.isWhitespace(r)
	verifAssert(got4 == (b == 32 || b == 9), "isWhitespace")
}
