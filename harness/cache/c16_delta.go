package PKG

import (
	"time"
)

// VerifC16AsDuration: H-C16c. For every DeltaSeconds d: AsDuration(d) is exactly d seconds, i.e.
// the 64-bit product d*10^9 does not wrap: dividing it back gives d with remainder 0, and the sign
// is preserved. (Decided by cvc5 --solve-bv-as-int=sum; bit-blasting does not finish on this kernel.)
func VerifC16AsDuration() {
	d := DeltaSeconds(nondetInt32())
	got := d.AsDuration()
	if d < 0 {
		verifCover("negative")
	} else {
		verifCover("non-negative")
	}
	verifAssert(got/time.Second == time.Duration(d), "AsDuration(d)/1s == d")
	verifAssert(got%time.Second == 0, "AsDuration(d) is a whole number of seconds")
	verifAssert((got < 0) == (d < 0), "sign preserved")
	verifAssert((got == 0) == (d == 0), "zero iff zero")
}

// VerifC16ParseDelta: deltaSecondsArgument on n symbolic ASCII digits clamps instead of wrapping.
func VerifC16ParseDelta(n int) {
	b := nondetBytes(n)
	var ref uint64 // saturating reference
	sat := false
	for i := 0; i < n; i++ {
		verifAssume(b[i] >= '0' && b[i] <= '9')
		if !sat {
			ref = ref*10 + uint64(b[i]-'0')
			if ref > 2147483647 {
				sat = true
				ref = 2147483647
			}
		}
	}
	v, err := deltaSecondsArgument("max-age", directiveArgument{present: true, text: string(b)})
	verifAssert(err == nil, "digits parse")
	verifAssert(v >= 0, "never negative")
	verifAssert(uint64(v) == ref, "value == min(digits, 2^31-1)")
	if sat {
		verifCover("clamped")
	} else {
		verifCover("exact")
	}
}
