package PKG

import (
	"encoding/json"
)

type zzJInner struct {
	A int    `json:"a"`
	B string `json:"b,omitempty"`
}

type zzJEmb struct {
	E1 string
	A  int `json:"shadowed_a"`
}

type zzJText int

func (t zzJText) MarshalText() ([]byte, error) { return []byte{'T', byte('0' + int(t))}, nil }

type zzJCustom struct{ v int }

func (c *zzJCustom) UnmarshalJSON(b []byte) error { c.v = len(b); return nil }
func (c zzJCustom) MarshalJSON() ([]byte, error)  { return []byte(`{ "len" : 1 }`), nil }

type zzJOuter struct {
	zzJEmb
	Name    string            `json:"name"`
	Skip    string            `json:"-"`
	hidden  int
	Ptr     *zzJInner         `json:"ptr,omitempty"`
	NilPtr  *zzJInner         `json:"nilptr"`
	List    []zzJInner        `json:"list"`
	NilList []int             `json:"nil_list"`
	M       map[string]int    `json:"m,omitempty"`
	Raw     json.RawMessage   `json:"raw"`
	Any     interface{}       `json:"any"`
	Bytes   []byte            `json:"bytes"`
	F       float64           `json:"f"`
	Bool    bool              `json:",omitempty"`
	Txt     zzJText           `json:"txt"`
	Cust    zzJCustom         `json:"cust"`
	Arr     [2]int8           `json:"arr"`
	H       map[string][]string
	U       uint16
}

// VerifJSONModel: engine self-check of the encoding/json model; the witness replay compares every
// observation with what the natively compiled encoding/json produces.
func VerifJSONModel() {
	b := nondetByte()
	verifAssume(b >= ' ' && b < 0x7f && b != '<' && b != '>' && b != '&')
	o := zzJOuter{
		zzJEmb: zzJEmb{E1: "e<1>", A: 5}, Name: "n\"a\tmé" + string([]byte{b}), Skip: "s", hidden: 3,
		Ptr: &zzJInner{A: 1}, List: []zzJInner{{A: 2, B: "x"}, {}}, M: map[string]int{"z": 1, "a": 2},
		Raw: json.RawMessage(`{"k": [1, 2 ]}`), Any: map[string]interface{}{"q": []interface{}{1.5, "s", nil, true}},
		Bytes: []byte{1, 2, 3, 250}, F: 1e21, Txt: 7, Arr: [2]int8{-1, 2}, H: map[string][]string{"X-A": {"1", "2"}}, U: 65535,
	}
	out, err := json.Marshal(o)
	verifAssert(err == nil, "marshal ok")
	verifObserveBytes("marshal", out)
	out2, _ := json.Marshal(&o)
	verifObserveBytes("marshalptr", out2)
	out3, _ := json.Marshal([]interface{}{nil, 3, "a", 2.5e-7, map[string]string(nil), []string{}})
	verifObserveBytes("marshalany", out3)

	var back zzJOuter
	in := []byte(`{"E1":"v","shadowed_a":9,"NAME":"cased","name":"exact","ptr":{"a":4,"b":"bb","zz":1},"nilptr":null,"list":[{"a":1},{"b":"q"}],"nil_list":[1,2,3],"m":{"k":7},"raw":{"x": [ 1 ]},"any":{"o":[1,"two",{"three":3}],"n":null},"bytes":"AQID","f":2.5,"Bool":true,"cust":[1,2,3],"arr":[7],"H":{"a":["b"]},"U":12,"unknown":{"deep":[1]}}`)
	err = json.Unmarshal(in, &back)
	verifAssert(err == nil, "unmarshal ok")
	out4, _ := json.Marshal(back)
	verifObserveBytes("roundtrip", out4)
	verifObserveInt("cust", back.Cust.v)

	var te zzJOuter
	err = json.Unmarshal([]byte(`{"name":5,"U":70000,"list":[{"a":"x"}],"f":1}`), &te)
	verifAssert(err != nil, "type errors reported")
	verifObserveString("typeerr-f", string(mustJ(te.F)))
	err = json.Unmarshal([]byte(`{"name":`), &te)
	verifAssert(err != nil, "syntax error reported")
	var anyv interface{}
	err = json.Unmarshal([]byte(` [1, {"a":"b"}, null, "s", false] `), &anyv)
	verifAssert(err == nil, "generic ok")
	out5, _ := json.Marshal(anyv)
	verifObserveBytes("generic", out5)
	verifAssert(json.Valid([]byte(`{"a":[1,2]}`)) && !json.Valid([]byte(`{a:1}`)), "valid")
}

func mustJ(v interface{}) []byte { b, _ := json.Marshal(v); return b }
