package PKG

import (
	"bytes"
	"context"
	"errors"
	"net/http"
	"sync"

	arena "github.com/wundergraph/go-arena"

	"github.com/wundergraph/graphql-go-tools/v2/pkg/ast"
	"github.com/wundergraph/graphql-go-tools/v2/pkg/engine/datasource/httpclient"
)

// zzResolver: the fields ArenaResolveGraphQLResponse uses; no heartbeat loop, no shutdown hook.
func zzResolver(maxConcurrency int) *Resolver {
	r := &Resolver{
		ctx:                         context.Background(),
		allowedErrorExtensionFields: map[string]struct{}{},
		allowedErrorFields:          map[string]struct{}{"message": {}, "path": {}},
		resolveArenaPool:            arena.NewArenaPool(),
		responseBufferPool:          arena.NewArenaPool(),
		subgraphRequestSingleFlight: NewSingleFlight(1),
		inboundRequestSingleFlight:  NewRequestSingleFlight(1),
	}
	r.maxConcurrency = make(chan struct{}, maxConcurrency)
	for i := 0; i < maxConcurrency; i++ {
		r.maxConcurrency <- struct{}{}
	}
	return r
}

var zzErrUpstream = errors.New("upstream failed")

type zzSource struct {
	calls   int
	fail    bool
	callers []int // which client's request context each upstream call ran under
	aborted []int // the clients whose upstream call ended with their own context error
}

type zzClientKey struct{}

// zzHeaders: forwarded headers of one client; the hash identifies the header set.
type zzHeaders struct {
	who  string
	hash uint64
}

func (h *zzHeaders) HeadersForSubgraph(subgraphName string) (http.Header, uint64) {
	return http.Header{"X-Who": []string{h.who}}, h.hash
}
func (h *zzHeaders) HashAll() uint64 { return h.hash }

func (s *zzSource) Load(ctx context.Context, headers http.Header, input []byte) ([]byte, error) {
	s.calls++
	if c, ok := ctx.Value(zzClientKey{}).(int); ok {
		s.callers = append(s.callers, c)
	}
	verifYield() // the request is in flight: other goroutines may run here
	if err := ctx.Err(); err != nil {
		if c, ok := ctx.Value(zzClientKey{}).(int); ok {
			s.aborted = append(s.aborted, c)
		}
		return nil, err // a real transport returns the caller's context error
	}
	if s.fail {
		return nil, zzErrUpstream
	}
	// the subgraph's answer depends on the forwarded headers of the request it serves
	who := "v"
	if headers != nil && headers.Get("X-Who") != "" {
		who = headers.Get("X-Who")
	}
	return []byte(`{"data":{"value":"` + who + `"}}`), nil
}

func (s *zzSource) LoadWithFiles(ctx context.Context, headers http.Header, input []byte, files []*httpclient.FileUpload) ([]byte, error) {
	return s.Load(ctx, headers, input)
}

type zzWriter struct {
	buf    bytes.Buffer
	writes int
	broken bool
}

var zzErrBrokenPipe = errors.New("write: broken pipe")

func (w *zzWriter) Write(p []byte) (int, error) {
	w.writes++
	if w.broken {
		return 0, zzErrBrokenPipe
	}
	return w.buf.Write(p)
}

func zzResponse(ds DataSource, op ast.OperationType) *GraphQLResponse {
	return &GraphQLResponse{
		Info: &GraphQLResponseInfo{OperationType: op},
		Fetches: Single(&SingleFetch{
			FetchConfiguration: FetchConfiguration{
				DataSource:     ds,
				PostProcessing: PostProcessingConfiguration{SelectResponseDataPath: []string{"data"}},
			},
			Info: &FetchInfo{DataSourceID: "ds", DataSourceName: "ds", OperationType: op},
		}),
		Data: &Object{Fields: []*Field{{Name: []byte("value"), Value: &String{Path: []string{"value"}, Nullable: true}}}},
	}
}

const zzAloneOK = `{"data":{"value":"v"}}`

// VerifC11Inbound: H-C11a. n concurrent requests through the real ArenaResolveGraphQLResponse; request ids
// symbolic (the solver decides who shares), optional upstream failure, optional cancellation of request 0's
// context at a symbolic point. Every interleaving at the visible operations (sync.Map, atomics, channels,
// in-flight fetch) within the preemption bound.
func VerifC11Inbound(n, withCancel, withFail int) {
	r := zzResolver(4)
	ds := &zzSource{fail: withFail&1 != 0 && nondetBool()}
	resp := zzResponse(ds, ast.OperationTypeQuery)
	ids := make([]uint64, n)
	for i := range ids {
		// two possible ids: equal ids share a key (withFail bit 8: every request has its own id, so that sharing can
		// only happen at the subgraph-request level)
		if withFail&8 != 0 {
			ids[i] = uint64(10 + i)
		} else if nondetBool() {
			ids[i] = 1
		} else {
			ids[i] = 2
		}
	}
	outs := make([]*zzWriter, n)
	errs := make([]error, n)
	// forwarded headers: two possible header sets, chosen by the solver per request (bit 2 of withFail)
	hdrs := make([]*zzHeaders, n)
	for i := range hdrs {
		if withFail&4 != 0 && nondetBool() {
			hdrs[i] = &zzHeaders{who: "bob", hash: 22}
		} else if withFail&4 != 0 {
			hdrs[i] = &zzHeaders{who: "alice", hash: 11}
		}
	}
	// client 0's connection may be broken (bit 1 of withFail): its Write fails
	broken0 := withFail&2 != 0 && nondetBool()
	ctxs := make([]context.Context, n)
	var cancel0 context.CancelFunc
	for i := range ctxs {
		ctxs[i] = context.WithValue(context.Background(), zzClientKey{}, i)
	}
	if withCancel != 0 {
		ctxs[0], cancel0 = context.WithCancel(ctxs[0])
	}
	var wg sync.WaitGroup
	for i := 0; i < n; i++ {
		outs[i] = &zzWriter{broken: broken0 && i == 0}
		wg.Add(1)
		go func(i int) {
			defer wg.Done()
			defer verifTag(i + 1)()
			ctx := NewContext(ctxs[i])
			ctx.Request.ID = ids[i]
			ctx.VariablesHash = 7
			if hdrs[i] != nil {
				ctx.SubgraphHeadersBuilder = hdrs[i]
			}
			_, errs[i] = r.ArenaResolveGraphQLResponse(ctx, resp, outs[i])
		}(i)
	}
	if withCancel != 0 {
		wg.Add(1)
		go func() {
			defer wg.Done()
			defer verifTag(100)()
			verifYield()
			cancel0() // client 0 disconnects at some point
		}()
	}
	wg.Wait()

	for i := 0; i < n; i++ {
		e := ""
		if errs[i] != nil {
			e = errs[i].Error()
		}
		verifObserveString("result", string(rune('0'+i))+": "+outs[i].buf.String()+" err="+e)
	}
	verifObserveInt("calls", ds.calls)
	for i := 0; i < n; i++ {
		own := withCancel != 0 && i == 0
		if errs[i] != nil {
			// a failure of the shared work this request would also have hit alone, its own cancellation,
			// or its own broken connection
			okErr := (ds.fail && errs[i] == zzErrUpstream) || (own && errors.Is(errs[i], context.Canceled)) || (broken0 && i == 0 && errs[i] == zzErrBrokenPipe)
			verifAssert(okErr, "a request only fails with the upstream error or its own cancellation")
			continue
		}
		got := outs[i].buf.String()
		alone := zzAloneOK
		if hdrs[i] != nil {
			alone = `{"data":{"value":"` + hdrs[i].who + `"}}`
		}
		if got == alone {
			verifCover("got the data it would get alone")
			continue
		}
		// a rendered fetch failure is acceptable only if this request would have hit it alone
		if ds.fail || own {
			verifCover("got a failure it would also get alone")
			continue
		}
		if withCancel != 0 {
			// How did another client's disconnect reach this live request?
			//  - same inbound key as the disconnecting client: that client led the whole-operation single flight and its
			//    failure response was published (known finding);
			//  - different inbound key, and an upstream call made under the disconnecting client's context was aborted:
			//    that client led the subgraph-request single flight and its context error was shared (known finding);
			//  - different inbound key and no aborted upstream call: the disconnecting client was not doing the shared
			//    work at all.
			if ids[i] != ids[0] {
				if len(ds.aborted) == 0 {
					verifAssert(false, "a live request does not fail because a client that was not doing the shared work disconnected")
				}
				verifAssert(false, "a live request receives the data it would get alone (not the context error of the subgraph single-flight leader)")
			}
			verifAssert(false, "a live request receives the data it would get alone (not another client's failure)")
		} else {
			verifAssert(false, "a request receives the data it would get alone")
		}
	}
	if ds.calls < n {
		verifCover("work was shared")
	}
	verifCover("all returned")
}
