package PKG

import (
	"bytes"
	"context"

	"github.com/wundergraph/graphql-go-tools/v2/pkg/ast"
)

// ---- plan description shared by the real plan builder and the reference executor

const (
	zkObj = iota
	zkArr
	zkStr
	zkInt
	zkFloat
	zkBool
	zkEnum
	zkScalar
)

type zzF struct {
	name   string
	node   *zzN
	onType string // "" = always
	info   *FieldInfo // optional (authorization harness)
}

type zzN struct {
	kind     int
	nullable bool
	fields   []zzF
	item     *zzN
	abstract bool
	possible []string
}

func zzBuild(n *zzN, path []string) Node {
	switch n.kind {
	case zkObj:
		o := &Object{Nullable: n.nullable, Path: path, TypeName: "T", SourceName: "sg"}
		if n.abstract {
			o.PossibleTypes = map[string]struct{}{}
			for _, p := range n.possible {
				o.PossibleTypes[p] = struct{}{}
			}
			o.TypeName = "U"
		}
		for _, f := range n.fields {
			fld := &Field{Name: []byte(f.name), Value: zzBuild(f.node, []string{f.name})}
			if f.onType != "" {
				fld.OnTypeNames = [][]byte{[]byte(f.onType)}
			}
			fld.Info = f.info
			o.Fields = append(o.Fields, fld)
		}
		return o
	case zkArr:
		return &Array{Nullable: n.nullable, Path: path, Item: zzBuild(n.item, nil)}
	case zkStr:
		return &String{Nullable: n.nullable, Path: path}
	case zkInt:
		return &Integer{Nullable: n.nullable, Path: path}
	case zkFloat:
		return &Float{Nullable: n.nullable, Path: path}
	case zkBool:
		return &Boolean{Nullable: n.nullable, Path: path}
	case zkEnum:
		return &Enum{Nullable: n.nullable, Path: path, TypeName: "E", Values: []string{"X", "Y"}, InaccessibleValues: []string{"Z"}}
	}
	return &Scalar{Nullable: n.nullable, Path: path}
}

// ---- JSON data model

const (
	zjAbsent = iota
	zjNull
	zjStr
	zjInt
	zjFrac
	zjBool
	zjArr
	zjObj
)

type zzD struct {
	kind int
	text string // scalar text
	arr  []*zzD
	keys []string
	vals []*zzD
}

func (d *zzD) render(out *bytes.Buffer) {
	switch d.kind {
	case zjNull:
		out.WriteString("null")
	case zjStr, zjInt, zjFrac, zjBool:
		out.WriteString(d.text)
	case zjArr:
		out.WriteByte('[')
		for i, e := range d.arr {
			if i > 0 {
				out.WriteByte(',')
			}
			e.render(out)
		}
		out.WriteByte(']')
	case zjObj:
		out.WriteByte('{')
		for i, k := range d.keys {
			if i > 0 {
				out.WriteByte(',')
			}
			out.WriteString(`"` + k + `":`)
			d.vals[i].render(out)
		}
		out.WriteByte('}')
	}
}

func (d *zzD) get(k string) *zzD {
	if d == nil || d.kind != zjObj {
		return nil
	}
	for i := range d.keys {
		if d.keys[i] == k {
			return d.vals[i]
		}
	}
	return nil
}

type zzGenD struct {
	deviations int
	typename   string // runtime type chosen for abstract objects
}

func zzLeaf(kind int) *zzD {
	switch kind {
	case zjStr:
		return &zzD{kind: zjStr, text: `"s"`}
	case zjInt:
		return &zzD{kind: zjInt, text: "7"}
	case zjFrac:
		return &zzD{kind: zjFrac, text: "1.5"}
	case zjBool:
		return &zzD{kind: zjBool, text: "true"}
	case zjArr:
		return &zzD{kind: zjArr}
	case zjObj:
		return &zzD{kind: zjObj}
	}
	return &zzD{kind: zjNull}
}

// gen: canonical conforming data for node n, with at most g.deviations off-canonical choices.
func (g *zzGenD) gen(n *zzN) *zzD {
	if g.deviations > 0 {
		c := nondetChoice(9)
		if c > 0 {
			g.deviations--
			switch c {
			case 1:
				return nil // absent
			case 2:
				return zzLeaf(zjNull)
			case 3:
				return zzLeaf(zjStr)
			case 4:
				return zzLeaf(zjInt)
			case 5:
				return zzLeaf(zjFrac)
			case 6:
				return zzLeaf(zjBool)
			case 7:
				return zzLeaf(zjArr)
			case 8:
				return zzLeaf(zjObj)
			}
		}
	}
	switch n.kind {
	case zkObj:
		d := &zzD{kind: zjObj}
		tn := ""
		if n.abstract {
			// runtime typename: a possible one, another known one, an unknown one, or none
			opts := []string{"A", "B", "C", ""}
			tn = "A"
			if g.deviations > 0 {
				c := nondetChoice(len(opts))
				tn = opts[c]
				if c > 0 {
					g.deviations--
				}
			}
			if tn != "" {
				d.keys = append(d.keys, "__typename")
				d.vals = append(d.vals, &zzD{kind: zjStr, text: `"` + tn + `"`})
			}
		}
		for _, f := range n.fields {
			if f.name == "__typename" {
				continue
			}
			v := g.gen(f.node)
			if v != nil {
				d.keys = append(d.keys, f.name)
				d.vals = append(d.vals, v)
			}
		}
		return d
	case zkArr:
		d := &zzD{kind: zjArr}
		n2 := 1
		if g.deviations > 0 {
			n2 = nondetChoice(3)
			if n2 != 1 {
				g.deviations--
			}
		}
		for i := 0; i < n2; i++ {
			e := g.gen(n.item)
			if e == nil {
				e = zzLeaf(zjNull)
			}
			d.arr = append(d.arr, e)
		}
		return d
	case zkStr:
		return zzLeaf(zjStr)
	case zkInt:
		return zzLeaf(zjInt)
	case zkFloat:
		return zzLeaf(zjFrac)
	case zkBool:
		return zzLeaf(zjBool)
	case zkEnum:
		if g.deviations > 0 {
			b := nondetByte()
			verifAssume(b == 'X' || b == 'Y' || b == 'Z' || b == 'W')
			if b != 'X' {
				g.deviations--
			}
			// concretise: the rendered text must be concrete for the oracle's text comparison
			b = verifConcreteByte(b)
			return &zzD{kind: zjStr, text: `"` + string([]byte{b}) + `"`}
		}
		return &zzD{kind: zjStr, text: `"X"`}
	}
	return zzLeaf(zjInt) // custom scalar: any value
}

// ---- reference executor: the spec's CompleteValue with null bubbling

type zzRef struct {
	errors   int
	why      string
	illTyped bool     // some offending value was ill-typed (not merely null/absent)
	path     []string // response path of the first offending position
	cur      []string
	farther  int // an ill-typed failure bubbles past this many nullable ancestors (0 = nearest)
	fars     []int // per ill-typed failure (in completion order) distance overriding farther
	nIll     int
	skipLeft int
}

const zzPropagate = "\x00PROPAGATE"

func (r *zzRef) fail(n *zzN, why string) string {
	r.errors++
	if r.why == "" {
		r.why = why
		r.path = append([]string(nil), r.cur...)
	}
	if why != "null for non-null" {
		r.illTyped = true
		// the response may null a farther nullable ancestor for an ill-typed value
		r.skipLeft = r.farther
		if r.nIll < len(r.fars) {
			r.skipLeft = r.fars[r.nIll]
		}
		r.nIll++
		if n.nullable && r.skipLeft > 0 {
			r.skipLeft--
			return zzPropagate
		}
	}
	if n.nullable {
		return "null"
	}
	return zzPropagate
}

func (r *zzRef) complete(n *zzN, d *zzD) string {
	if d == nil || d.kind == zjNull {
		if n.nullable {
			return "null"
		}
		return r.fail(n, "null for non-null")
	}
	switch n.kind {
	case zkObj:
		if d.kind != zjObj {
			return r.fail(n, "non-object for object")
		}
		tn := ""
		if t := d.get("__typename"); t != nil && t.kind == zjStr {
			tn = t.text[1 : len(t.text)-1]
		}
		if n.abstract {
			ok := false
			for _, p := range n.possible {
				if p == tn {
					ok = true
				}
			}
			if !ok {
				if tn == "" {
					return r.fail(n, "abstract object without __typename")
				}
				return r.fail(n, "abstract object with impossible __typename")
			}
		}
		out := "{"
		first := true
		for _, f := range n.fields {
			if f.onType != "" && f.onType != tn {
				continue
			}
			var v string
			if f.name == "__typename" {
				v = `"` + tn + `"`
			} else {
				r.cur = append(r.cur, f.name)
				v = r.complete(f.node, d.get(f.name))
				r.cur = r.cur[:len(r.cur)-1]
			}
			if v == zzPropagate {
				if n.nullable && r.skipLeft > 0 {
					r.skipLeft--
					return zzPropagate
				}
				if n.nullable {
					return "null"
				}
				return zzPropagate
			}
			if !first {
				out += ","
			}
			first = false
			out += `"` + f.name + `":` + v
		}
		return out + "}"
	case zkArr:
		if d.kind != zjArr {
			return r.fail(n, "non-array for list")
		}
		out := "["
		for i, e := range d.arr {
			r.cur = append(r.cur, string([]byte{byte('0' + i)}))
			v := r.complete(n.item, e)
			r.cur = r.cur[:len(r.cur)-1]
			if v == zzPropagate {
				if n.nullable && r.skipLeft > 0 {
					r.skipLeft--
					return zzPropagate
				}
				if n.nullable {
					return "null"
				}
				return zzPropagate
			}
			if i > 0 {
				out += ","
			}
			out += v
		}
		return out + "]"
	case zkStr:
		if d.kind != zjStr {
			return r.fail(n, "String: non-string value")
		}
		return d.text
	case zkInt:
		if d.kind == zjInt {
			return d.text
		}
		if d.kind == zjFrac {
			return r.fail(n, "Int: fractional number")
		}
		return r.fail(n, "Int: non-number value")
	case zkFloat:
		if d.kind == zjInt || d.kind == zjFrac {
			return d.text
		}
		return r.fail(n, "Float: non-number value")
	case zkBool:
		if d.kind != zjBool {
			return r.fail(n, "Boolean: non-boolean value")
		}
		return d.text
	case zkEnum:
		if d.kind != zjStr {
			return r.fail(n, "Enum: non-string value")
		}
		if d.text == `"X"` || d.text == `"Y"` {
			return d.text
		}
		if d.text == `"Z"` {
			return r.fail(n, "Enum: inaccessible value")
		}
		return r.fail(n, "Enum: unknown value")
	}
	// custom scalar: anything non-null, rendered as is
	var b bytes.Buffer
	d.render(&b)
	return b.String()
}

// ---- templates

func zzNullable() bool { return nondetBool() }

func zzTemplate(t int) *zzN {
	switch t {
	case 0: // scalars, nested object, list of strings
		return &zzN{kind: zkObj, fields: []zzF{
			{name: "a", node: &zzN{kind: zkStr, nullable: zzNullable()}},
			{name: "o", node: &zzN{kind: zkObj, nullable: zzNullable(), fields: []zzF{
				{name: "b", node: &zzN{kind: zkInt, nullable: zzNullable()}},
				{name: "l", node: &zzN{kind: zkArr, nullable: zzNullable(), item: &zzN{kind: zkStr, nullable: zzNullable()}}},
			}}},
		}}
	case 1: // abstract object with type-conditioned fields, enum, custom scalar
		possible := []string{"A", "B"}
		if nondetBool() {
			possible = []string{"A"}
		}
		return &zzN{kind: zkObj, fields: []zzF{
			{name: "u", node: &zzN{kind: zkObj, nullable: zzNullable(), abstract: true, possible: possible, fields: []zzF{
				{name: "__typename", node: &zzN{kind: zkStr}},
				{name: "x", node: &zzN{kind: zkScalar, nullable: zzNullable()}, onType: "A"},
				{name: "y", node: &zzN{kind: zkBool, nullable: zzNullable()}, onType: "B"},
			}}},
			{name: "e", node: &zzN{kind: zkEnum, nullable: zzNullable()}},
		}}
	case 2: // list of objects, float
		return &zzN{kind: zkObj, fields: []zzF{
			{name: "l", node: &zzN{kind: zkArr, nullable: zzNullable(), item: &zzN{kind: zkObj, nullable: zzNullable(), fields: []zzF{
				{name: "s", node: &zzN{kind: zkStr, nullable: zzNullable()}},
				{name: "f", node: &zzN{kind: zkFloat, nullable: true}},
			}}}},
		}}
	}
	// 3: list of abstract objects in non-null positions
	return &zzN{kind: zkObj, fields: []zzF{
		{name: "p", node: &zzN{kind: zkArr, nullable: zzNullable(), item: &zzN{kind: zkObj, nullable: zzNullable(), abstract: true, possible: []string{"A"}, fields: []zzF{
			{name: "x", node: &zzN{kind: zkScalar, nullable: zzNullable()}, onType: "A"},
		}}}},
	}}
}

// VerifC02Render: H-C02. Rendered response == reference CompleteValue with null bubbling, for every
// nullability assignment of the template plan and every data document within the deviation budget.
func VerifC02Render(template, deviations int) {
	plan := zzTemplate(template)
	g := &zzGenD{deviations: deviations}
	data := g.gen(plan)
	if data == nil || data.kind != zjObj {
		// the root data is always an object (the loader merges into an object)
		verifAssume(false)
	}
	var in bytes.Buffer
	data.render(&in)
	verifObserveBytes("input", in.Bytes())

	root := zzBuild(plan, nil).(*Object)
	ctx := NewContext(context.Background())
	res := NewResolvable(nil, ResolvableOptions{})
	err := res.Init(ctx, in.Bytes(), ast.OperationTypeQuery)
	verifAssert(err == nil, "Init succeeds")
	var out bytes.Buffer
	err = res.Resolve(context.Background(), root, nil, &out)
	verifAssert(err == nil, "Resolve succeeds")
	verifObserveBytes("output", out.Bytes())

	keys, vals, ok := zzFields(out.Bytes())
	verifAssert(ok, "response is a well-formed JSON object")
	if !ok {
		return
	}
	for _, k := range keys {
		verifAssert(k == "data" || k == "errors", "only data and errors keys")
	}
	gotData, hasData := zzGet(keys, vals, "data")
	verifAssert(hasData, "response has a data key")
	_, hasErrors := zzGet(keys, vals, "errors")

	ref := &zzRef{}
	want := ref.complete(plan, data)
	if want == zzPropagate {
		want = "null"
	}
	if ref.errors > 0 {
		verifCover("reference has errors")
	} else {
		verifCover("reference clean")
	}
	if !bytes.Equal(gotData, []byte(want)) {
		// an ill-typed value may also be answered by nulling a farther nullable ancestor, up to data:null
		ok2 := ref.illTyped && bytes.Equal(gotData, []byte("null"))
		// each ill-typed value may null a farther nullable ancestor, independently of the others
		for f1 := 0; !ok2 && ref.illTyped && f1 <= 4; f1++ {
			for f2 := 0; !ok2 && f2 <= 4; f2++ {
				for f3 := 0; !ok2 && f3 <= 4; f3++ {
					r2 := &zzRef{fars: []int{f1, f2, f3}}
					w2 := r2.complete(plan, data)
					if w2 == zzPropagate {
						w2 = "null"
					}
					ok2 = bytes.Equal(gotData, []byte(w2))
					if ref.nIll < 3 {
						break
					}
				}
				if ref.nIll < 2 {
					break
				}
			}
		}
		if !ok2 {
			verifAssert(false, "data equals the reference completion ("+ref.why+")")
		}
	}
	if (ref.errors > 0) != hasErrors {
		verifAssert(false, "errors present iff the reference replaced something ("+ref.why+")")
	}
	if ref.errors > 0 && hasErrors {
		// some error carries the response path of the (first) offending position
		errs, _ := zzGet(keys, vals, "errors")
		wantPath := `"path":[`
		for i, e := range ref.path {
			if i > 0 {
				wantPath += ","
			}
			if len(e) == 1 && e[0] >= '0' && e[0] <= '9' {
				wantPath += e
			} else {
				wantPath += `"` + e + `"`
			}
		}
		wantPath += "]"
		if !bytes.Contains(errs, []byte(wantPath)) {
			verifAssert(false, "an error carries the path of the offending position ("+ref.why+")")
		}
	}
}
