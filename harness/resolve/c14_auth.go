package PKG

import (
	"bytes"
	"context"
	"encoding/json"
	"io"
	"net/http"

	"github.com/wundergraph/graphql-go-tools/v2/pkg/ast"
	"github.com/wundergraph/graphql-go-tools/v2/pkg/engine/datasource/httpclient"
)

// decisions of the stub authorizers: one symbolic allow bit per protected coordinate
type zzDecisions struct {
	allow map[GraphCoordinate]bool
	calls int
}

type zzAuthorizer struct{ d *zzDecisions }

func (a *zzAuthorizer) AuthorizePreFetch(ctx *Context, dataSourceID string, input json.RawMessage, coordinate GraphCoordinate) (*AuthorizationDeny, error) {
	return a.zzPre(coordinate)
}
func (a *zzAuthorizer) AuthorizeObjectField(ctx *Context, dataSourceID string, object json.RawMessage, coordinate GraphCoordinate) (*AuthorizationDeny, error) {
	a.d.calls++
	if allowed, known := a.d.allow[coordinate]; known && !allowed {
		return &AuthorizationDeny{Reason: "r"}, nil
	}
	return nil, nil
}
func (a *zzAuthorizer) HasResponseExtensionData(ctx *Context) bool            { return false }
func (a *zzAuthorizer) RenderResponseExtension(ctx *Context, out io.Writer) error { return nil }

type zzBatchAuthorizer struct{ d *zzDecisions }

func (a *zzBatchAuthorizer) AuthorizeFields(ctx *Context, coordinates []GraphCoordinate) ([]AuthorizationDecision, error) {
	out := make([]AuthorizationDecision, len(coordinates))
	for i, c := range coordinates {
		a.d.calls++
		key := GraphCoordinate{TypeName: c.TypeName, FieldName: c.FieldName}
		allowed, known := a.d.allow[key]
		out[i] = AuthorizationDecision{Allowed: !known || allowed, Reason: "r"}
	}
	return out, nil
}

func zzProtected(typeName, field string, ds ...string) *FieldInfo {
	return &FieldInfo{Name: field, ExactParentTypeName: typeName, HasAuthorizationRule: true, Source: TypeFieldSource{IDs: ds, Names: ds}}
}

// zzAuthPlan: user{id email* org{email*}} items[{secret*}] ; * = protected.
func zzAuthPlan(twoSources bool) *zzN {
	emailDS := []string{"A"}
	if twoSources {
		emailDS = []string{"A", "B"}
	}
	return &zzN{kind: zkObj, fields: []zzF{
		{name: "user", node: &zzN{kind: zkObj, nullable: zzNullable(), fields: []zzF{
			{name: "id", node: &zzN{kind: zkStr, nullable: true}},
			{name: "email", node: &zzN{kind: zkStr, nullable: zzNullable()}, info: zzProtected("User", "email", emailDS...)},
			{name: "org", node: &zzN{kind: zkObj, nullable: zzNullable(), fields: []zzF{
				{name: "email", node: &zzN{kind: zkStr, nullable: zzNullable()}, info: zzProtected("Org", "email", "A")},
			}}},
		}}},
		{name: "items", node: &zzN{kind: zkArr, nullable: zzNullable(), item: &zzN{kind: zkObj, nullable: zzNullable(), fields: []zzF{
			{name: "secret", node: &zzN{kind: zkInt, nullable: zzNullable()}, info: zzProtected("Item", "secret", "B")},
		}}}},
	}}
}

// zzNullDenied returns a copy of the data with every denied protected field replaced by null.
func zzNullDenied(n *zzN, d *zzD, dec *zzDecisions) *zzD {
	if d == nil {
		return nil
	}
	switch n.kind {
	case zkObj:
		if d.kind != zjObj {
			return d
		}
		c := &zzD{kind: zjObj}
		for i, k := range d.keys {
			v := d.vals[i]
			for _, f := range n.fields {
				if f.name != k {
					continue
				}
				if f.info != nil {
					if allowed, known := dec.allow[GraphCoordinate{TypeName: f.info.ExactParentTypeName, FieldName: f.info.Name}]; known && !allowed {
						v = &zzD{kind: zjNull}
						break
					}
				}
				v = zzNullDenied(f.node, v, dec)
			}
			c.keys = append(c.keys, k)
			c.vals = append(c.vals, v)
		}
		// a denied field that is absent in the data is null all the same
		return c
	case zkArr:
		if d.kind != zjArr {
			return d
		}
		c := &zzD{kind: zjArr}
		for _, e := range d.arr {
			c.arr = append(c.arr, zzNullDenied(n.item, e, dec))
		}
		return c
	}
	return d
}

// VerifC14Render: H-C14b. Denied protected fields never reach the client: the rendered data equals the reference
// completion of the data in which every denied field is null (so the denial null-propagates like any other
// null), the sentinel values of denied fields do not occur in the output, and a denial at a reached position
// is reported. mode 0 = post-fetch authorizer, 1 = pre-fetch batch authorizer (coordinates seeded up front).
func VerifC14Render(mode, deviations, twoSources int) {
	plan := zzAuthPlan(twoSources != 0)
	dec := &zzDecisions{allow: map[GraphCoordinate]bool{
		{TypeName: "User", FieldName: "email"}: nondetBool(),
		{TypeName: "Org", FieldName: "email"}:  nondetBool(),
		{TypeName: "Item", FieldName: "secret"}: nondetBool(),
	}}
	g := &zzGenD{deviations: deviations}
	data := g.gen(plan)
	if data == nil || data.kind != zjObj {
		verifAssume(false)
	}
	// sentinels
	if u := data.get("user"); u != nil && u.kind == zjObj {
		if e := u.get("email"); e != nil && e.kind == zjStr {
			e.text = `"SENTUSER"`
		}
		if o := u.get("org"); o != nil && o.kind == zjObj {
			if e := o.get("email"); e != nil && e.kind == zjStr {
				e.text = `"SENTORG"`
			}
		}
	}
	if it := data.get("items"); it != nil && it.kind == zjArr {
		for _, e := range it.arr {
			if s := e.get("secret"); s != nil && s.kind == zjInt {
				s.text = "424242"
			}
		}
	}
	var in bytes.Buffer
	data.render(&in)
	verifObserveBytes("input", in.Bytes())

	root := zzBuild(plan, nil).(*Object)
	ctx := NewContext(context.Background())
	resp := &GraphQLResponse{Info: &GraphQLResponseInfo{OperationType: ast.OperationTypeQuery}, Data: root}
	if mode == 0 {
		ctx.SetAuthorizer(&zzAuthorizer{d: dec})
	} else {
		ctx.SetPreFetchFieldAuthorizer(&zzBatchAuthorizer{d: dec})
		emailDS := []string{"A"}
		if twoSources != 0 {
			emailDS = []string{"A", "B"}
		}
		for _, ds := range emailDS {
			resp.Info.AuthorizationCoordinates = append(resp.Info.AuthorizationCoordinates, AuthorizationCoordinate{DataSourceID: ds, Coordinate: GraphCoordinate{TypeName: "User", FieldName: "email"}})
		}
		resp.Info.AuthorizationCoordinates = append(resp.Info.AuthorizationCoordinates,
			AuthorizationCoordinate{DataSourceID: "A", Coordinate: GraphCoordinate{TypeName: "Org", FieldName: "email"}},
			AuthorizationCoordinate{DataSourceID: "B", Coordinate: GraphCoordinate{TypeName: "Item", FieldName: "secret"}})
	}
	res := NewResolvable(nil, ResolvableOptions{})
	auth := NewFieldAuthorization(ctx)
	res.SetFieldAuthorization(auth)
	err := res.Init(ctx, in.Bytes(), ast.OperationTypeQuery)
	verifAssert(err == nil, "Init succeeds")
	err = auth.authorizePreFetch(resp)
	verifAssert(err == nil, "authorizePreFetch succeeds")
	var out bytes.Buffer
	err = res.Resolve(context.Background(), root, nil, &out)
	verifAssert(err == nil, "Resolve succeeds")
	verifObserveBytes("output", out.Bytes())

	o := out.Bytes()
	if !dec.allow[GraphCoordinate{TypeName: "User", FieldName: "email"}] {
		verifAssert(!bytes.Contains(o, []byte("SENTUSER")), "a denied field's value never reaches the client (User.email)")
	}
	if !dec.allow[GraphCoordinate{TypeName: "Org", FieldName: "email"}] {
		verifAssert(!bytes.Contains(o, []byte("SENTORG")), "a denied field's value never reaches the client (Org.email)")
	}
	if !dec.allow[GraphCoordinate{TypeName: "Item", FieldName: "secret"}] {
		verifAssert(!bytes.Contains(o, []byte("424242")), "a denied field's value never reaches the client (Item.secret)")
	}
	keys, vals, ok := zzFields(o)
	verifAssert(ok, "response is a well-formed JSON object")
	if !ok {
		return
	}
	gotData, _ := zzGet(keys, vals, "data")
	// reference: denied fields are null, then ordinary completion with null bubbling
	nulled := zzNullDenied(plan, data, dec)
	ref := &zzRef{}
	want := ref.complete(plan, nulled)
	if want == zzPropagate {
		want = "null"
	}
	if !bytes.Equal(gotData, []byte(want)) {
		ok2 := ref.illTyped && bytes.Equal(gotData, []byte("null"))
		// each ill-typed value may null a farther nullable ancestor, independently
		for f1 := 0; !ok2 && ref.illTyped && f1 <= 4; f1++ {
			for f2 := 0; !ok2 && f2 <= 4; f2++ {
				r2 := &zzRef{fars: []int{f1, f2}}
				w2 := r2.complete(plan, nulled)
				if w2 == zzPropagate {
					w2 = "null"
				}
				ok2 = bytes.Equal(gotData, []byte(w2))
			}
		}
		if !ok2 {
			verifAssert(false, "data equals the completion of the data with denied fields nulled ("+ref.why+")")
		}
	}
	// a denial at a reached position is reported at that position with the authorization error code.
	// Reached for certain: the data itself completes without any error (nothing else stops the walk), the
	// enclosing object is present, and it is the first denied coordinate in walk order.
	errs, hasErrs := zzGet(keys, vals, "errors")
	clean := &zzRef{}
	clean.complete(plan, data)
	wantPath := ""
	if clean.errors == 0 {
		u := data.get("user")
		switch {
		case !dec.allow[GraphCoordinate{TypeName: "User", FieldName: "email"}]:
			if u != nil && u.kind == zjObj {
				wantPath = `"path":["user","email"]`
			}
		case !dec.allow[GraphCoordinate{TypeName: "Org", FieldName: "email"}]:
			if o := u.get("org"); o != nil && o.kind == zjObj {
				wantPath = `"path":["user","org","email"]`
			}
		case !dec.allow[GraphCoordinate{TypeName: "Item", FieldName: "secret"}]:
			if it := data.get("items"); it != nil && it.kind == zjArr && len(it.arr) > 0 && it.arr[0].kind == zjObj {
				wantPath = `"path":["items",0,"secret"]`
			}
		}
	}
	if wantPath != "" {
		verifCover("denied at a reached position")
		verifAssert(hasErrs && bytes.Contains(errs, []byte("UNAUTHORIZED_FIELD_OR_TYPE")), "a denial at a reached position is reported")
		verifAssert(hasErrs && bytes.Contains(errs, []byte(wantPath)), "the denial error carries the path of the denied position")
	} else {
		verifCover("no certainly-reached denial")
	}
}

// ---- H-C14c: the request-sent rule, through the real resolver entry point and loader

type zzAuthSource struct {
	calls int
}

func (s *zzAuthSource) Load(ctx context.Context, headers http.Header, input []byte) ([]byte, error) {
	s.calls++
	return []byte(`{"data":{"a":"SENTA","b":"SENTB"}}`), nil
}
func (s *zzAuthSource) LoadWithFiles(ctx context.Context, headers http.Header, input []byte, files []*httpclient.FileUpload) ([]byte, error) {
	return s.Load(ctx, headers, input)
}

func (a *zzAuthorizer) zzPre(coordinate GraphCoordinate) (*AuthorizationDeny, error) {
	if allowed, known := a.d.allow[GraphCoordinate{TypeName: coordinate.TypeName, FieldName: coordinate.FieldName}]; known && !allowed {
		return &AuthorizationDeny{Reason: "r"}, nil
	}
	return nil, nil
}

// VerifC14Fetch: one fetch with two root fields a, b; which of them are protected, which are denied, the nullability
// of the response fields are symbolic; op: 0 query, 1 mutation. mode 1 = up-front (batch) authorization,
// mode 0 = legacy authorizer (AuthorizePreFetch for mutations, AuthorizeObjectField for fields).
func VerifC14Fetch(op, mode int) {
	opType := ast.OperationTypeQuery
	rootType := "Query"
	if op == 1 {
		opType = ast.OperationTypeMutation
		rootType = "Mutation"
	}
	protA, protB := nondetBool(), nondetBool()
	dec := &zzDecisions{allow: map[GraphCoordinate]bool{}}
	if protA {
		dec.allow[GraphCoordinate{TypeName: rootType, FieldName: "a"}] = nondetBool()
	}
	if protB {
		dec.allow[GraphCoordinate{TypeName: rootType, FieldName: "b"}] = nondetBool()
	}
	deniedA := protA && !dec.allow[GraphCoordinate{TypeName: rootType, FieldName: "a"}]
	deniedB := protB && !dec.allow[GraphCoordinate{TypeName: rootType, FieldName: "b"}]

	ds := &zzAuthSource{}
	info := func(name string, prot bool) *FieldInfo {
		return &FieldInfo{Name: name, ExactParentTypeName: rootType, HasAuthorizationRule: prot, Source: TypeFieldSource{IDs: []string{"ds"}, Names: []string{"ds"}}}
	}
	nullA, nullB := nondetBool(), nondetBool()
	resp := &GraphQLResponse{
		Info: &GraphQLResponseInfo{OperationType: opType},
		Fetches: Single(&SingleFetch{
			FetchConfiguration: FetchConfiguration{
				DataSource:     ds,
				PostProcessing: PostProcessingConfiguration{SelectResponseDataPath: []string{"data"}},
			},
			Info: &FetchInfo{DataSourceID: "ds", DataSourceName: "ds", OperationType: opType, RootFields: []GraphCoordinate{
				{TypeName: rootType, FieldName: "a", HasAuthorizationRule: protA},
				{TypeName: rootType, FieldName: "b", HasAuthorizationRule: protB},
			}},
		}),
		Data: &Object{Fields: []*Field{
			{Name: []byte("a"), Value: &String{Path: []string{"a"}, Nullable: nullA}, Info: info("a", protA)},
			{Name: []byte("b"), Value: &String{Path: []string{"b"}, Nullable: nullB}, Info: info("b", protB)},
		}},
	}
	// what the coordinate collector lists: every protected coordinate with its data source
	if protA {
		resp.Info.AuthorizationCoordinates = append(resp.Info.AuthorizationCoordinates, AuthorizationCoordinate{DataSourceID: "ds", Coordinate: GraphCoordinate{TypeName: rootType, FieldName: "a"}})
	}
	if protB {
		resp.Info.AuthorizationCoordinates = append(resp.Info.AuthorizationCoordinates, AuthorizationCoordinate{DataSourceID: "ds", Coordinate: GraphCoordinate{TypeName: rootType, FieldName: "b"}})
	}
	r := zzResolver(2)
	ctx := NewContext(context.Background())
	ctx.Request.ID = 1
	if mode == 1 {
		ctx.SetPreFetchFieldAuthorizer(&zzBatchAuthorizer{d: dec})
	} else {
		ctx.SetAuthorizer(&zzAuthorizer{d: dec})
	}
	out := &zzWriter{}
	_, err := r.ArenaResolveGraphQLResponse(ctx, resp, out)
	verifAssert(err == nil, "resolve succeeds")
	o := out.buf.Bytes()
	verifObserveBytes("output", o)

	// the request-sent rule
	wantSkip := false
	if op == 1 {
		wantSkip = deniedA || deniedB
	} else if mode == 1 {
		wantSkip = deniedA && deniedB
	}
	if wantSkip {
		verifCover("request must not be sent")
		verifAssert(ds.calls == 0, "a subgraph request whose root fields are denied is not sent")
	} else {
		verifCover("request is sent")
		verifAssert(ds.calls == 1, "an authorized subgraph request is sent exactly once")
	}
	if deniedA {
		verifAssert(!bytes.Contains(o, []byte("SENTA")), "a denied field's value never reaches the client (a)")
	}
	if deniedB {
		verifAssert(!bytes.Contains(o, []byte("SENTB")), "a denied field's value never reaches the client (b)")
	}
	keys, vals, ok := zzFields(o)
	verifAssert(ok, "response is a well-formed JSON object")
	if !ok {
		return
	}
	gotData, _ := zzGet(keys, vals, "data")
	errs, hasErrs := zzGet(keys, vals, "errors")
	if deniedA || deniedB {
		verifAssert(hasErrs && bytes.Contains(errs, []byte("nauthorized")), "a denial is reported as an error")
	}
	if ds.calls == 1 {
		// data: denied fields null, null-propagating to data:null for a non-nullable field
		want := "{"
		dataNull := false
		va, vb := `"SENTA"`, `"SENTB"`
		if deniedA {
			va = "null"
			dataNull = dataNull || !nullA
		}
		if deniedB {
			vb = "null"
			dataNull = dataNull || !nullB
		}
		want += `"a":` + va + `,"b":` + vb + "}"
		if dataNull {
			want = "null"
		}
		verifAssert(bytes.Equal(gotData, []byte(want)), "data equals the completion of the data with denied fields nulled")
		if !deniedA && !deniedB {
			verifAssert(!hasErrs, "no error without a denial")
		}
	}
}
