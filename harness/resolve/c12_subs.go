package PKG

import (
	"context"
	"io"
	"net/http"
	"sync"

	"github.com/cespare/xxhash/v2"

	"github.com/wundergraph/graphql-go-tools/v2/pkg/ast"
)

// ---- stubs

type zzReporter struct {
	mu                                 sync.Mutex
	subInc, subDec, trigInc, trigDec   int
	updates                            int
}

func (r *zzReporter) SubscriptionUpdateSent()        { r.mu.Lock(); r.updates++; r.mu.Unlock() }
func (r *zzReporter) SubscriptionCountInc(count int) { r.mu.Lock(); r.subInc += count; r.mu.Unlock() }
func (r *zzReporter) SubscriptionCountDec(count int) { r.mu.Lock(); r.subDec += count; r.mu.Unlock() }
func (r *zzReporter) TriggerCountInc(count int)      { r.mu.Lock(); r.trigInc += count; r.mu.Unlock() }
func (r *zzReporter) TriggerCountDec(count int)      { r.mu.Lock(); r.trigDec += count; r.mu.Unlock() }

type zzErrWriter struct{}

func (zzErrWriter) WriteError(ctx *Context, err error, res *GraphQLResponse, w io.Writer) {
	_, _ = w.Write([]byte(`{"errors":[{"message":"` + err.Error() + `"}]}`))
}

// zzSubSource: Start hands the updater to the harness and returns (optionally with an error).
type zzSubSource struct {
	mu        sync.Mutex
	starts    int
	failStart bool
	updaters  []SubscriptionUpdater
	ctxs      []*Context
	started   chan struct{}
}

func (s *zzSubSource) Start(ctx *Context, headers http.Header, input []byte, updater SubscriptionUpdater) error {
	s.mu.Lock()
	s.starts++
	s.updaters = append(s.updaters, updater)
	s.ctxs = append(s.ctxs, ctx)
	s.mu.Unlock()
	if s.failStart {
		return zzErrUpstream
	}
	s.started <- struct{}{}
	return nil
}

func (s *zzSubSource) HashTriggerInput(input []byte, xxh *xxhash.Digest) error {
	_, err := xxh.Write(input)
	return err
}

// zzSubWriter records every call and checks that nothing is written after completion and that
// calls never overlap.
type zzSubWriter struct {
	id        int
	state     *subscriptionState // set once registered
	completed chan struct{}      // the subscription's completed channel
	msgs      [][]byte
	cur       []byte
	completes int
	errors    int
	heartbeats int
	busy      bool
	afterDone bool
	overlap   bool
}

func (w *zzSubWriter) enter() {
	if w.busy {
		w.overlap = true
	}
	w.busy = true
	if w.completed != nil {
		select {
		case <-w.completed:
			w.afterDone = true
		default:
		}
	}
	verifYield() // the call takes time: other goroutines may run while it is in progress
}
func (w *zzSubWriter) leave() { w.busy = false }

func (w *zzSubWriter) Write(p []byte) (int, error) {
	w.enter()
	w.cur = append(w.cur, p...)
	w.leave()
	return len(p), nil
}
func (w *zzSubWriter) Flush() error {
	w.enter()
	w.msgs = append(w.msgs, w.cur)
	w.cur = nil
	w.leave()
	return nil
}
func (w *zzSubWriter) Complete()        { w.enter(); w.completes++; w.leave() }
func (w *zzSubWriter) Heartbeat() error { w.enter(); w.heartbeats++; w.leave(); return nil }
func (w *zzSubWriter) Error(data []byte) {
	w.enter()
	w.errors++
	w.leave()
}

func zzSubscription(src SubscriptionDataSource, input string) *GraphQLSubscription {
	return &GraphQLSubscription{
		Trigger: GraphQLSubscriptionTrigger{
			Source:     src,
			SourceName: "ds",
			InputTemplate: InputTemplate{Segments: []TemplateSegment{{SegmentType: StaticSegmentType, Data: []byte(input)}}},
			PostProcessing: PostProcessingConfiguration{SelectResponseDataPath: []string{"data"}},
		},
		Response: &GraphQLResponse{
			Info: &GraphQLResponseInfo{OperationType: ast.OperationTypeSubscription},
			Data: &Object{Fields: []*Field{{Name: []byte("n"), Value: &Integer{Path: []string{"n"}, Nullable: true}}}},
		},
	}
}

func zzSubResolver(rep Reporter) *Resolver {
	r := zzResolver(4)
	r.triggers = make(map[uint64]*trigger)
	r.subscriptionsByID = make(map[SubscriptionIdentifier]*subscriptionState)
	r.subscriptionsByConnection = make(map[ConnectionID]map[SubscriptionIdentifier]*subscriptionState)
	r.reporter = rep
	r.errorFormatter = zzErrWriter{}
	r.maxSubscriptionFetchTimeout = 1000000000
	return r
}

// VerifC12Delivery: H-C12/H-C13a. One trigger, nsubs subscribers; a source actor emits events 1..nev then
// (optionally) Complete and Done; client actors unsubscribe at symbolic points. Every interleaving within the
// preemption bound: each subscriber's messages are a prefix-ordered subsequence 1,2,.. of the events, nothing
// reaches a writer after its completion was signalled, writer calls never overlap, completion signalled once;
// at quiescence no trigger or subscription record remains and the reported counts are balanced.
func VerifC12Delivery(nsubs, nev, mode int) {
	rep := &zzReporter{}
	r := zzSubResolver(rep)
	src := &zzSubSource{started: make(chan struct{}, 4)}
	sub := zzSubscription(src, `{"topic":"t"}`)
	writers := make([]*zzSubWriter, nsubs)
	ids := make([]SubscriptionIdentifier, nsubs)
	var wg sync.WaitGroup
	var cancel0 context.CancelFunc

	for i := 0; i < nsubs; i++ {
		writers[i] = &zzSubWriter{id: i}
		ids[i] = SubscriptionIdentifier{ConnectionID: ConnectionID(i + 1), SubscriptionID: 1}
		reqCtx := context.Background()
		if mode&8 != 0 && i == 0 {
			// subscriber 0 (the creator of the shared trigger) leaves by a client disconnect: its request context ends
			reqCtx, cancel0 = context.WithCancel(context.Background())
		}
		ctx := NewContext(reqCtx)
		err := r.AsyncResolveGraphQLSubscription(ctx, sub, writers[i], ids[i])
		verifAssert(err == nil, "subscribe succeeds")
		r.mu.Lock()
		if st := r.subscriptionsByID[ids[i]]; st != nil {
			writers[i].state = st
			writers[i].completed = st.completed
		}
		r.mu.Unlock()
	}

	// source actor
	wg.Add(1)
	go func() {
		defer wg.Done()
		defer verifTag(10)()
		<-src.started
		src.mu.Lock()
		up := src.updaters[0]
		src.mu.Unlock()
		for e := 1; e <= nev; e++ {
			up.Update([]byte(`{"data":{"n":` + string([]byte{byte('0' + e)}) + `}}`))
		}
		if mode&1 != 0 {
			up.Complete()
		}
		if mode&2 != 0 {
			up.Done()
		}
	}()
	// client actors: unsubscribe at some point (mode bit 2: subscriber 0 leaves)
	if mode&4 != 0 {
		wg.Add(1)
		go func() {
			defer wg.Done()
			defer verifTag(20)()
			verifYield()
			_ = r.UnsubscribeSubscription(ids[0])
		}()
	}
	if mode&8 != 0 {
		wg.Add(1)
		go func() {
			defer wg.Done()
			defer verifTag(30)()
			verifYield()
			cancel0()
		}()
	}
	wg.Wait()
	verifQuiesce()

	for i, w := range writers {
		verifAssert(!w.afterDone, "no writer call after the subscription's completion was signalled")
		verifAssert(!w.overlap, "writer calls never overlap")
		// messages are events 1,2,.. in order without gaps or duplicates (a prefix when the subscriber left)
		for k, m := range w.msgs {
			want := `{"data":{"n":` + string([]byte{byte('0' + k + 1)}) + `}}`
			verifAssert(string(m) == want, "messages are the events in source order")
		}
		left := mode&(4|8) != 0 && i == 0
		if !left {
			verifAssert(len(w.msgs) == nev, "a subscriber that stays receives every event")
		}
		verifAssert(w.completes <= 1, "Complete is written at most once")
		if mode&1 != 0 && !left {
			verifAssert(w.completes == 1, "a subscriber that stays receives Complete when the source completes")
		}
	}
	if mode&2 != 0 {
		// after Done everything is torn down
		r.mu.Lock()
		nt, ns := len(r.triggers), len(r.subscriptionsByID)
		r.mu.Unlock()
		verifAssert(nt == 0 && ns == 0, "no trigger or subscription record remains after Done")
		verifAssert(rep.subInc == rep.subDec, "subscription count returns to zero")
		verifAssert(rep.trigInc == rep.trigDec, "trigger count returns to zero")
		for _, w := range writers {
			closed := false
			select {
			case <-w.completed:
				closed = true
			default:
			}
			verifAssert(closed, "every subscriber's completion is signalled")
		}
	}
	verifAssert(src.starts == 1, "the upstream is started once per trigger")
	verifCover("done")
}
