package PKG

import (
	"bytes"

	"github.com/wundergraph/graphql-go-tools/v2/pkg/astparser"
	"github.com/wundergraph/graphql-go-tools/v2/pkg/operationreport"
)

const zzC15Schema = `
schema { query: Query }
scalar Int scalar String
type Query { f(a: In): Int s(x: Int, y: [Int]): Int }
input In { p: Int q: [Int] r: Int t: String }
`

// VerifC15Forwarding: H-C15b. Literal/variable mix in an input object argument: after variable extraction the
// variables object is valid, an absent variable stays absent (or takes its declared default), an explicit
// null stays null, values are unchanged (up to list coercion), and the extracted object mirrors them.
func VerifC15Forwarding() {
	vars := []byte("{")
	vState := nondetChoice(3) // absent, null, 3
	wState := nondetChoice(4) // absent, null, 7, [7,null]
	sep := ""
	switch vState {
	case 1:
		vars = append(vars, `"v":null`...)
		sep = ","
	case 2:
		vars = append(vars, `"v":3`...)
		sep = ","
	}
	switch wState {
	case 1:
		vars = append(vars, sep+`"w":null`...)
	case 2:
		vars = append(vars, sep+`"w":7`...)
	case 3:
		vars = append(vars, sep+`"w":[7,null]`...)
	}
	vars = append(vars, '}')
	verifObserveBytes("input", vars)

	def, rep := astparser.ParseGraphqlDocumentString(zzC15Schema)
	verifAssume(!rep.HasErrors())
	op, rep2 := astparser.ParseGraphqlDocumentString(`query($v: Int = 10, $w: [Int]){ f(a: {p: $v, q: $w, r: 5, t: "x\ty"}) s(x: $v, y: $w) }`)
	verifAssume(!rep2.HasErrors())
	op.Input.Variables = vars
	report := operationreport.Report{}
	NewWithOpts(WithExtractVariables()).NormalizeOperation(&op, &def, &report)
	verifAssert(!report.HasErrors(), "normalization succeeds")
	if report.HasErrors() {
		return
	}
	out := op.Input.Variables
	keys, vals, ok := zzFields(out)
	verifAssert(ok, "variables after extraction are a well-formed JSON object")
	if !ok {
		return
	}
	// $v
	v, hasV := zzGet(keys, vals, "v")
	switch vState {
	case 0:
		verifAssert(hasV && bytes.Equal(v, []byte("10")), "absent variable with default takes the default")
	case 1:
		verifAssert(hasV && bytes.Equal(v, []byte("null")), "explicit null stays null (not replaced by the default)")
	case 2:
		verifAssert(hasV && bytes.Equal(v, []byte("3")), "provided value is unchanged")
	}
	// $w
	w, hasW := zzGet(keys, vals, "w")
	switch wState {
	case 0:
		verifAssert(!hasW, "absent variable without default stays absent")
	case 1:
		verifAssert(hasW && bytes.Equal(w, []byte("null")), "explicit null list stays null")
	case 2:
		verifAssert(hasW && bytes.Equal(w, []byte("[7]")), "single value is coerced to a list of one")
	case 3:
		verifAssert(hasW && bytes.Equal(w, []byte("[7,null]")), "list value is unchanged")
	}
	// the extracted object: some new variable whose value is an object with p,q,r,t
	found := false
	for i := range keys {
		if keys[i] == "v" || keys[i] == "w" {
			continue
		}
		ok2 := false
		fk, fv, ok2 := zzFields(vals[i])
		verifAssert(ok2, "extracted variable is a well-formed object")
		if !ok2 {
			return
		}
		found = true
		r, hasR := zzGet(fk, fv, "r")
		verifAssert(hasR && bytes.Equal(r, []byte("5")), "literal field r extracted")
		t, hasT := zzGet(fk, fv, "t")
		verifAssert(hasT && bytes.Equal(t, []byte(`"x\ty"`)), "string literal with escape extracted verbatim")
		p, hasP := zzGet(fk, fv, "p")
		q, hasQ := zzGet(fk, fv, "q")
		verifAssert(hasP && hasV && bytes.Equal(p, v), "object field bound to $v carries $v's value")
		if wState == 0 {
			verifAssert(!hasQ, "object field bound to an absent variable is omitted")
		} else {
			verifAssert(hasQ && bytes.Equal(q, w), "object field bound to $w carries $w's value")
		}
	}
	verifAssert(found, "the object literal was extracted into a variable")
	verifCover("checked")
}
