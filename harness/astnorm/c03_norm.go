package PKG

import (
	"strings"

	"github.com/wundergraph/graphql-go-tools/v2/pkg/ast"
	"github.com/wundergraph/graphql-go-tools/v2/pkg/astparser"
	"github.com/wundergraph/graphql-go-tools/v2/pkg/astprinter"
	"github.com/wundergraph/graphql-go-tools/v2/pkg/asttransform"
	"github.com/wundergraph/graphql-go-tools/v2/pkg/astvalidation"
	"github.com/wundergraph/graphql-go-tools/v2/pkg/operationreport"
)

const zzC03Schema = `
type Query { a: A n: N u: U list: [A!] echo(i: Int, s: String = "d", l: [Int!], o: In, e: E, ll: [[Int]]): String }
interface N { id: ID! }
type A implements N { id: ID! x: String y: Int a: A echo(i: Int, l: [Int!], o: In): String }
type B implements N { id: ID! z: String }
union U = A | B
input In { f: Int = 7 g: [String] n: In r: Int! = 1 }
enum E { P Q }
`

func zzC03World() *zzO {
	a2 := &zzO{typ: "A", f: map[string]interface{}{"id": `"a2"`, "x": nil, "y": "6", "a": nil}}
	a1 := &zzO{typ: "A", f: map[string]interface{}{"id": `"a1"`, "x": `"x1"`, "y": "5", "a": a2}}
	b1 := &zzO{typ: "B", f: map[string]interface{}{"id": `"b1"`, "z": `"z1"`}}
	return &zzO{typ: "Query", f: map[string]interface{}{"a": a1, "n": b1, "u": a1, "list": []interface{}{a1, a2}}}
}

// ---- generator. Semantic choices (what is selected, which argument values) are recorded on the first pass and
// replayed on the second, syntactic choices (how it is written) are fresh: two spellings of one meaning.

type zzGen3 struct {
	budget    int
	sem       []int // recorded semantic choices
	semPos    int
	replay    bool
	frags     string // fragment definitions
	nfrag     int
	varDefs   string
	vars      string // JSON members
	nvar      int
	syntactic bool // allow syntactic sugar (second spelling)
}

func (g *zzGen3) semChoice(n int) int {
	if g.replay {
		c := g.sem[g.semPos]
		g.semPos++
		return c
	}
	c := 0
	if g.budget > 0 {
		c = nondetChoice(n)
		if c > 0 {
			g.budget--
		}
	}
	g.sem = append(g.sem, c)
	return c
}

func (g *zzGen3) sugar(n int) int {
	if !g.syntactic || g.budget <= 0 {
		return 0
	}
	c := nondetChoice(n)
	if c > 0 {
		g.budget--
	}
	return c
}

func (g *zzGen3) addVar(typ, def, jsonVal string) string {
	name := "v" + string(rune('a'+g.nvar))
	g.nvar++
	if g.varDefs != "" {
		g.varDefs += ", "
	}
	g.varDefs += "$" + name + ": " + typ
	if def != "" {
		g.varDefs += " = " + def
	}
	if jsonVal != "" {
		if g.vars != "" {
			g.vars += ","
		}
		g.vars += `"` + name + `":` + jsonVal
	}
	return "$" + name
}

// value writes an argument value either as a literal or through a variable.
func (g *zzGen3) value(typ, literal, jsonVal string) string {
	switch g.sugar(4) {
	case 1:
		return g.addVar(typ, "", jsonVal)
	case 2:
		// variable left out by the client, default declared on the operation
		return g.addVar(typ, literal, "")
	case 3:
		// a different default is declared, the client's value (possibly an explicit null) wins
		if alt := zzAltDefault(typ); alt != "" {
			return g.addVar(typ, alt, jsonVal)
		}
		return g.addVar(typ, "", jsonVal)
	}
	return literal
}

func zzAltDefault(typ string) string {
	switch typ {
	case "Int":
		return "99"
	case "[Int!]":
		return "[9]"
	case "In":
		return "{f: 99}"
	case "E":
		return "P"
	case "String":
		return `"zz"`
	case "[[Int]]":
		return "[[9]]"
	case "Boolean!":
		return "true"
	}
	return ""
}

func (g *zzGen3) echoArgs(onQuery bool) string {
	out := ""
	switch g.semChoice(3) {
	case 1:
		out += "i: " + g.value("Int", "3", "3") + " "
	case 2:
		out += "i: " + g.value("Int", "null", "null") + " "
	}
	switch g.semChoice(4) {
	case 1:
		out += "l: " + g.value("[Int!]", "[1, 2]", "[1,2]") + " "
	case 2:
		out += "l: " + g.value("[Int!]", "4", "4") + " " // list coercion of a single value
	case 3:
		out += "l: " + g.value("[Int!]", "[]", "[]") + " "
	}
	switch g.semChoice(5) {
	case 1:
		out += "o: " + g.value("In", "{f: 2}", `{"f":2}`) + " "
	case 2:
		out += "o: " + g.value("In", `{g: "s"}`, `{"g":"s"}`) + " " // list coercion inside an input object
	case 3:
		out += "o: " + g.value("In", `{n: {f: null, g: ["a", null]}, r: 9}`, `{"n":{"f":null,"g":["a",null]},"r":9}`) + " "
	case 4:
		// a variable inside an object literal
		out += "o: {f: " + g.value("Int", "5", "5") + "} "
	}
	if onQuery {
		switch g.semChoice(3) {
		case 1:
			out += "e: " + g.value("E", "Q", `"Q"`) + " "
		case 2:
			out += `s: ` + g.value("String", `"x\"y"`, `"x\"y"`) + " "
		}
		if g.semChoice(2) == 1 {
			out += "ll: " + g.value("[[Int]]", "1", "1") + " "
		}
	}
	if out == "" {
		return ""
	}
	return "(" + out + ")"
}

func (g *zzGen3) directive() string {
	switch g.semChoice(5) {
	case 1:
		return " @skip(if: " + g.value("Boolean!", "true", "true") + ")"
	case 2:
		return " @skip(if: " + g.value("Boolean!", "false", "false") + ")"
	case 3:
		return " @include(if: " + g.value("Boolean!", "true", "true") + ")"
	case 4:
		return " @include(if: " + g.value("Boolean!", "false", "false") + ")"
	}
	return ""
}

// wrap writes a selection directly, duplicated, inside an inline fragment or through a fragment spread.
func (g *zzGen3) wrap(typ, sel string) string {
	switch g.sugar(5) {
	case 1:
		return sel + " " + sel
	case 2:
		return "... on " + typ + " { " + sel + " }"
	case 3:
		g.nfrag++
		name := "F" + string(rune('0'+g.nfrag))
		g.frags += " fragment " + name + " on " + typ + " { " + sel + " }"
		return "..." + name
	case 4:
		return "... { " + sel + " }"
	}
	return sel
}

func (g *zzGen3) selA(depth int) string {
	out := ""
	if g.semChoice(2) == 1 {
		out += g.wrap("A", "id") + " "
	}
	switch g.semChoice(4) {
	case 1:
		out += g.wrap("A", "x"+g.directive()) + " "
	case 2:
		// the same leaf twice, each under its own condition
		out += "x" + g.directive() + " " + g.wrap("A", "x"+g.directive()) + " "
	case 3:
		// a condition on an inline fragment without type condition
		out += "..." + g.directive() + " { x } "
	}
	if g.semChoice(2) == 1 {
		out += g.wrap("A", "k: y") + " "
	}
	if g.semChoice(2) == 1 {
		out += g.wrap("A", "echo"+g.echoArgs(false)) + " "
	}
	if depth > 0 && g.semChoice(2) == 1 {
		out += g.wrap("A", "a"+g.directive()+" { "+g.selA(depth-1)+"}") + " "
	}
	if out == "" {
		out = g.wrap("A", "y") + " "
	}
	return out
}

func (g *zzGen3) selAbstract(field string) string {
	out := field + " { "
	any := false
	if field == "n" && g.semChoice(2) == 1 {
		out += "id "
		any = true
	}
	if g.semChoice(2) == 1 {
		out += "... on A { " + g.selA(0) + "} "
		any = true
	}
	if g.semChoice(2) == 1 {
		out += "... on B { z } "
		any = true
	}
	if !any {
		out += "__typename "
	}
	return out + "}"
}

func (g *zzGen3) operation(depth int) string {
	body := ""
	switch g.semChoice(5) {
	case 0:
		body = g.wrap("Query", "a { "+g.selA(depth)+"}")
	case 1:
		body = g.wrap("Query", "echo"+g.echoArgs(true))
	case 2:
		body = g.wrap("Query", "list"+g.directive()+" { "+g.selA(depth)+"}")
	case 3:
		body = g.wrap("Query", g.selAbstract("n"))
	case 4:
		body = g.wrap("Query", g.selAbstract("u"))
	}
	if g.semChoice(2) == 1 {
		body += " " + g.wrap("Query", "b: a { "+g.selA(0)+"}")
	}
	head := ""
	if g.varDefs != "" {
		head = "query(" + g.varDefs + ") "
	}
	return head + "{ " + body + " }" + g.frags
}

type zzNormed struct {
	printed string
	vars    string
	data    string
	errors  int
}

func zzC03Def() *ast.Document {
	def, rep := astparser.ParseGraphqlDocumentString(zzC03Schema)
	if rep.HasErrors() {
		panic(rep.Error())
	}
	if err := asttransform.MergeDefinitionWithBaseSchema(&def); err != nil {
		panic(err)
	}
	return &def
}

func zzVarsMap(vars string) map[string]string {
	m := map[string]string{}
	keys, vals, _ := zzFields([]byte(vars))
	for i, k := range keys {
		m[k] = string(vals[i])
	}
	return m
}

func zzExecOp(def, op *ast.Document, vars string) (string, int) {
	ex := &zzExec{schema: def, op: op, vars: zzVarsMap(vars)}
	d := ex.run(zzC03World())
	return d, ex.errors
}

// zzNormalize runs the engine's normalization pipeline; ok=false if the operation is not valid to begin with.
// zzC03Pipeline selects how the operation is normalized:
//
//	0 one stage, all options (execution/graphql Request.Normalize defaults); validated afterwards;
//	1 two stages as in execution/engine Execute: everything but extraction, validation, then WithExtractVariables
//	  alone (which may leave a variable that was inlined into an extracted object defined but unused; the engine
//	  does not validate again, and neither does this pipeline).
//
// Normalization is a function of the operation AND the variable values (@skip/@include and defaults are evaluated
// with them); normalizing without the client's variables, and WithIgnoreSkipInclude, are outside the property.
var zzC03Pipeline int

func zzC03Run(op, def *ast.Document, vars string, report *operationreport.Report) {
	op.Input.Variables = []byte(vars)
	if zzC03Pipeline == 0 {
		NewWithOpts(WithExtractVariables(), WithRemoveFragmentDefinitions(), WithRemoveUnusedVariables(), WithInlineFragmentSpreads()).NormalizeOperation(op, def, report)
		if !report.HasErrors() {
			astvalidation.DefaultOperationValidator().Validate(op, def, report)
		}
		return
	}
	NewWithOpts(WithRemoveFragmentDefinitions(), WithRemoveUnusedVariables(), WithInlineFragmentSpreads()).NormalizeOperation(op, def, report)
	if report.HasErrors() {
		return
	}
	astvalidation.DefaultOperationValidator().Validate(op, def, report)
	if report.HasErrors() {
		return
	}
	NewWithOpts(WithExtractVariables()).NormalizeOperation(op, def, report)
}

func zzNormalize(def *ast.Document, operation, vars string, label string) (*zzNormed, bool) {
	op, rep := astparser.ParseGraphqlDocumentString(operation)
	if rep.HasErrors() {
		return nil, false
	}
	op.Input.Variables = []byte(vars)
	// the generator only writes valid operations; the repository's validator is meant for normalized
	// documents (it rejects any remaining fragment spread), so it is applied after normalization only
	before, beforeErrs := zzExecOp(def, &op, vars)

	var report operationreport.Report
	zzC03Run(&op, def, vars, &report)
	if report.HasErrors() {
		verifObserveString("report", report.Error())
		verifAssert(false, "normalizing a valid operation succeeds and the result is valid")
	}
	printed, err := astprinter.PrintString(&op)
	verifAssert(err == nil, "normalized operation prints")
	verifObserveString("normalized-"+label, printed)
	verifObserveBytes("variables-"+label, op.Input.Variables)

	after, afterErrs := zzExecOp(def, &op, string(op.Input.Variables))
	if before != after || (beforeErrs > 0) != (afterErrs > 0) {
		verifObserveString("before", before)
		verifObserveString("after", after)
		verifAssert(false, "the normalized operation with the normalized variables produces the same response")
	}
	// structure
	for i := range op.RootNodes {
		verifAssert(op.RootNodes[i].Kind != ast.NodeKindFragmentDefinition, "no fragment definition remains")
	}
	// idempotence (one-stage pipeline; the engine's two-stage pipeline leaves inlined variables defined, which its
	// own validation stage would reject on a second run)
	if zzC03Pipeline == 0 {
		reparsed, rep2 := astparser.ParseGraphqlDocumentString(printed)
		verifAssert(!rep2.HasErrors(), "normalized print re-parses")
		var again operationreport.Report
		zzC03Run(&reparsed, def, string(op.Input.Variables), &again)
		verifAssert(!again.HasErrors(), "normalizing the normalized operation succeeds")
		printed2, _ := astprinter.PrintString(&reparsed)
		if printed2 != printed || string(reparsed.Input.Variables) != string(op.Input.Variables) {
			verifObserveString("second", printed2)
			verifObserveBytes("second-variables", reparsed.Input.Variables)
			verifAssert(false, "normalization is idempotent (printed form and variables)")
		}
	}
	// canonical variable names
	var mr operationreport.Report
	NewVariablesMapper().NormalizeOperation(&op, def, &mr)
	verifAssert(!mr.HasErrors(), "variable mapping succeeds")
	canon, _ := astprinter.PrintString(&op)
	return &zzNormed{printed: canon, vars: string(op.Input.Variables), data: after, errors: afterErrs}, true
}

// VerifC03Normalize: H-C03a. For every generated valid operation (depth, at most `budget` non-default choices):
// normalization succeeds, the result is valid, means the same (reference executor on fixed data, arguments
// observed through echo fields that return their coerced arguments), is a fixed point, and - with pair != 0 - a
// second spelling of the same meaning (duplicates, inline fragments, fragment spreads, literals moved into
// variables) reaches the same canonical form after variable mapping.
func VerifC03Normalize(depth, budget, pair, pipeline int) {
	zzC03Pipeline = pipeline
	def := zzC03Def()
	g := &zzGen3{budget: budget, syntactic: pair == 0}
	operation := g.operation(depth)
	vars := "{" + g.vars + "}"
	verifObserveString("input", operation+" | "+vars)
	n1, ok := zzNormalize(def, operation, vars, "1")
	if !ok {
		verifAssume(false) // generator produced an invalid operation (not in the property's domain)
	}
	verifCover("normalized")
	if pair == 0 {
		return
	}
	g2 := &zzGen3{budget: pair, syntactic: true, replay: true, sem: g.sem}
	operation2 := g2.operation(depth)
	vars2 := "{" + g2.vars + "}"
	verifObserveString("input2", operation2+" | "+vars2)
	n2, ok := zzNormalize(def, operation2, vars2, "2")
	if !ok {
		verifAssume(false)
	}
	if n1.data != n2.data {
		verifObserveString("data1", n1.data)
		verifObserveString("data2", n2.data)
		verifAssert(false, "generator: the two spellings mean the same") // harness self-check
	}
	if n1.printed != n2.printed {
		verifObserveString("canon1", n1.printed)
		verifObserveString("canon2", n2.printed)
		strip := func(s string) string { return strings.ReplaceAll(s, " __internal_typename: __typename", "") }
		if strip(n1.printed) == strip(n2.printed) {
			verifAssert(false, "operations differing only in spelling reach the same normalized form (differ by a leftover __internal_typename placeholder)")
		}
		if zzDropUnusedVarDefs(strip(n1.printed)) == zzDropUnusedVarDefs(strip(n2.printed)) {
			verifAssert(false, "operations differing only in spelling reach the same normalized form (differ by a declared but unused variable)")
		}
		verifAssert(false, "operations differing only in spelling reach the same normalized form")
	}
	verifCover("pair compared")
}

// zzDropUnusedVarDefs removes "$name: Type" entries of the operation header whose variable does not occur in the body.
func zzDropUnusedVarDefs(printed string) string {
	if !strings.HasPrefix(printed, "query(") {
		return printed
	}
	end := strings.Index(printed, "){")
	if end < 0 {
		return printed
	}
	header, body := printed[len("query("):end], printed[end+1:]
	var keep []string
	for _, d := range strings.Split(header, ", ") {
		name := d
		if i := strings.Index(d, ":"); i > 0 {
			name = d[:i]
		}
		if strings.Contains(body, name+")") || strings.Contains(body, name+",") || strings.Contains(body, name+" ") || strings.Contains(body, name+"}") {
			keep = append(keep, d)
		}
	}
	if len(keep) == 0 {
		return body
	}
	return "query(" + strings.Join(keep, ", ") + ")" + body
}
