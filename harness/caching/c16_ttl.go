package PKG

import (
	"net/http"
	"time"

	"github.com/wundergraph/graphql-go-tools/v2/pkg/engine/cache"
)

// ---- independent RFC 9111 directive scanner (oracle) ----

type zzDirectives struct {
	public, noStore, noCache, private bool
	hasSMaxAge, hasMaxAge             bool
	sMaxAge, maxAge                   int64 // seconds, saturated at 2^31-1; -1 = not a number
}

func zzLower(c byte) byte {
	if c >= 'A' && c <= 'Z' {
		return c + 32
	}
	return c
}

func zzNameIs(b []byte, name string) bool {
	if len(b) != len(name) {
		return false
	}
	eq := true
	for i := 0; i < len(b); i++ {
		if zzLower(b[i]) != name[i] {
			eq = false
		}
	}
	return eq
}

func zzDeltaSeconds(arg []byte) int64 {
	if len(arg) == 0 {
		return -1
	}
	var v int64
	for i := 0; i < len(arg); i++ {
		c := arg[i]
		if c < '0' || c > '9' {
			return -1
		}
		v = v*10 + int64(c-'0')
		if v > 2147483647 {
			v = 2147483647
		}
	}
	return v
}

// zzScan splits on commas outside quoted strings, trims OWS, and reads name[=value].
func zzScan(h []byte) zzDirectives {
	var d zzDirectives
	// a field value never carries leading/trailing whitespace or line breaks (RFC 9110 §5.5)
	for len(h) > 0 && (h[0] == ' ' || h[0] == '\t' || h[0] == '\r' || h[0] == '\n') {
		h = h[1:]
	}
	for len(h) > 0 && (h[len(h)-1] == ' ' || h[len(h)-1] == '\t' || h[len(h)-1] == '\r' || h[len(h)-1] == '\n') {
		h = h[:len(h)-1]
	}
	i := 0
	n := len(h)
	for i <= n {
		// one directive: [i, j)
		j := i
		inQ := false
		for j < n {
			c := h[j]
			if c == '"' {
				inQ = !inQ
			} else if c == ',' && !inQ {
				break
			}
			j++
		}
		// trim OWS
		s, e := i, j
		for s < e && (h[s] == ' ' || h[s] == '\t') {
			s++
		}
		for e > s && (h[e-1] == ' ' || h[e-1] == '\t') {
			e--
		}
		// name up to '=' or OWS
		k := s
		for k < e && h[k] != '=' && h[k] != ' ' && h[k] != '\t' {
			k++
		}
		name := h[s:k]
		// argument
		a := k
		for a < e && (h[a] == ' ' || h[a] == '\t') {
			a++
		}
		var arg []byte
		if a < e && h[a] == '=' {
			a++
			for a < e && (h[a] == ' ' || h[a] == '\t') {
				a++
			}
			arg = h[a:e]
			if len(arg) >= 2 && arg[0] == '"' && arg[len(arg)-1] == '"' {
				arg = arg[1 : len(arg)-1]
			}
		}
		switch {
		case zzNameIs(name, "public"):
			d.public = true
		case zzNameIs(name, "no-store"):
			d.noStore = true
		case zzNameIs(name, "no-cache"):
			d.noCache = true
		case zzNameIs(name, "private"):
			d.private = true
		case zzNameIs(name, "s-maxage"):
			if !d.hasSMaxAge {
				d.hasSMaxAge = true
				d.sMaxAge = zzDeltaSeconds(arg)
			}
		case zzNameIs(name, "max-age"):
			if !d.hasMaxAge {
				d.hasMaxAge = true
				d.maxAge = zzDeltaSeconds(arg)
			}
		}
		i = j + 1
	}
	return d
}

func zzCheckTTL(h []byte, def time.Duration) {
	hdr := http.Header{"Cache-Control": []string{string(h)}}
	ttl, ok := TTL(hdr, def)
	if !ok {
		verifCover("not stored")
		verifAssert(ttl == 0, "not stored => ttl 0")
		return
	}
	verifCover("stored")
	d := zzScan(h)
	verifAssert(d.public, "stored => public directive present")
	verifAssert(!d.noStore, "stored => no no-store directive")
	verifAssert(!d.noCache, "stored => no no-cache directive")
	verifAssert(!d.private, "stored => no private directive")
	verifAssert(ttl > 0, "stored => ttl > 0")
	// The lifetime is compared in delta-seconds (the duration arithmetic d*1e9 is H-C16c's obligation):
	// re-parse to read the delta-seconds the implementation derived, compare them with the oracle's,
	// and require TTL to be exactly their AsDuration.
	cc, err := cache.ParseCacheControlResponse(hdr)
	verifAssert(err == nil && cc != nil, "stored => header parses")
	switch {
	case d.hasSMaxAge:
		verifCover("stored with s-maxage")
		verifAssert(cc.SMaxAge != nil, "oracle sees s-maxage => parsed s-maxage")
		verifAssert(d.sMaxAge > 0 && int64(*cc.SMaxAge) <= d.sMaxAge, "delta-seconds <= s-maxage")
		verifAssert(ttl == cc.SMaxAge.AsDuration(), "ttl == s-maxage as duration")
	case d.hasMaxAge:
		verifCover("stored with max-age")
		verifAssert(cc.SMaxAge == nil, "no s-maxage in oracle => none parsed")
		verifAssert(cc.MaxAge != nil, "oracle sees max-age => parsed max-age")
		verifAssert(d.maxAge > 0 && int64(*cc.MaxAge) <= d.maxAge, "delta-seconds <= max-age")
		verifAssert(ttl == cc.MaxAge.AsDuration(), "ttl == max-age as duration")
	default:
		verifCover("stored with default")
		verifAssert(cc.SMaxAge == nil && cc.MaxAge == nil, "no lifetime in oracle => none parsed")
		verifAssert(def > 0 && ttl == def, "ttl == default ttl")
	}
}

// VerifC16TTLRaw: H-C16a. n arbitrary header bytes after a fixed prefix (so that short inputs reach
// the interesting region): prefix 0 = "", 1 = "public,", 2 = "public,max-age=", 3 = "public, s-maxage=1,", 4 = "max-age=7,", 5 = "public,max-age=60,s-maxage=", 6 = "public,s-maxage=", 7 = "public,no-cache=".
func VerifC16TTLRaw(prefix, n int) {
	var pre string
	switch prefix {
	case 1:
		pre = "public,"
	case 2:
		pre = "public,max-age="
	case 3:
		pre = "public, s-maxage=1,"
	case 4:
		pre = "max-age=7,"
	case 5:
		pre = "public,max-age=60,s-maxage="
	case 6:
		pre = "public,s-maxage="
	case 7:
		pre = "public,no-cache="
	}
	h := append([]byte(pre), nondetBytes(n)...)
	def := time.Duration(nondetInt64())
	zzCheckTTL(h, def)
}

var zzVocab = []string{"public", "max-age", "s-maxage", "no-store", "no-cache", "private", "x"}

// VerifC16TTLDirectives: H-C16b. k directives chosen by the solver from the vocabulary; directives that
// take an argument get none, `=arg` or `="arg"` with argLen symbolic bytes. With vary != 0 the first
// letter's case and the separator whitespace are symbolic choices as well.
func VerifC16TTLDirectives(k, argLen, vary int) {
	var h []byte
	for i := 0; i < k; i++ {
		if i > 0 {
			h = append(h, ',')
			if vary != 0 && nondetBool() {
				h = append(h, ' ')
			}
		}
		wi := nondetChoice(len(zzVocab))
		w := zzVocab[wi]
		upper := vary != 0 && nondetBool()
		for j := 0; j < len(w); j++ {
			c := w[j]
			if upper && j == 0 && c >= 'a' && c <= 'z' {
				c -= 32
			}
			h = append(h, c)
		}
		if wi == 1 || wi == 2 || wi == 4 || wi == 5 {
			switch nondetChoice(3) {
			case 0:
			case 1:
				h = append(h, '=')
				h = append(h, nondetBytes(argLen)...)
			case 2:
				h = append(h, '=', '"')
				h = append(h, nondetBytes(argLen)...)
				h = append(h, '"')
			}
		}
	}
	def := time.Duration(nondetInt64())
	zzCheckTTL(h, def)
}
