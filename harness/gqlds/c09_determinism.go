package PKG

import (
	"bytes"
	"fmt"
	"sort"

	"github.com/wundergraph/graphql-go-tools/v2/pkg/astnormalization"
	"github.com/wundergraph/graphql-go-tools/v2/pkg/asttransform"
	"github.com/wundergraph/graphql-go-tools/v2/pkg/astvalidation"
	"github.com/wundergraph/graphql-go-tools/v2/pkg/engine/plan"
	"github.com/wundergraph/graphql-go-tools/v2/pkg/engine/postprocess"
	"github.com/wundergraph/graphql-go-tools/v2/pkg/engine/resolve"
	"github.com/wundergraph/graphql-go-tools/v2/pkg/internal/unsafeparser"
	"github.com/wundergraph/graphql-go-tools/v2/pkg/operationreport"
)

// zzShape renders the response shape of a plan (field names, paths, nullability, type names, possible
// types, type conditions, defer ids) canonically.
func zzShape(n resolve.Node, out *bytes.Buffer) {
	switch x := n.(type) {
	case *resolve.Object:
		fmt.Fprintf(out, "O(%v,%v,%s,[", x.Path, x.Nullable, x.TypeName)
		var pt []string
		for k := range x.PossibleTypes {
			pt = append(pt, k)
		}
		sort.Strings(pt)
		fmt.Fprintf(out, "%v]){", pt)
		for _, f := range x.Fields {
			fmt.Fprintf(out, "%s", f.Name)
			for _, t := range f.OnTypeNames {
				fmt.Fprintf(out, "|on %s", t)
			}
			for _, t := range f.ParentOnTypeNames {
				fmt.Fprintf(out, "|pon %d:%s", t.Depth, bytes.Join(t.Names, []byte(",")))
			}
			out.WriteString(":")
			zzShape(f.Value, out)
			out.WriteString(";")
		}
		out.WriteString("}")
	case *resolve.Array:
		fmt.Fprintf(out, "A(%v,%v)[", x.Path, x.Nullable)
		zzShape(x.Item, out)
		out.WriteString("]")
	case nil:
		out.WriteString("nil")
	default:
		fmt.Fprintf(out, "L(%d,%v,%v)", n.NodeKind(), n.NodePath(), n.NodeNullable())
	}
}

// zzFetchTree renders the fetch tree: structure, per fetch its subgraph request, merge path, dependencies.
func zzFetchTree(n *resolve.FetchTreeNode, out *bytes.Buffer) {
	if n == nil {
		out.WriteString("nil")
		return
	}
	fmt.Fprintf(out, "%d(", n.Kind)
	if n.Item != nil && n.Item.Fetch != nil {
		if sf, ok := n.Item.Fetch.(*resolve.SingleFetch); ok {
			var path []string
			for _, e := range n.Item.FetchPath {
				path = append(path, fmt.Sprintf("%d:%s", e.Kind, e.Path))
			}
			deps := sf.Dependencies()
			fmt.Fprintf(out, "F#%d deps=%v at %v post=%v in=%s", deps.FetchID, deps.DependsOnFetchIDs, path, sf.PostProcessing.MergePath, sf.Input)
			if sf.Info != nil {
				fmt.Fprintf(out, " ds=%s roots=%v", sf.Info.DataSourceID, sf.Info.RootFields)
			}
		}
	}
	for _, c := range n.ChildNodes {
		out.WriteString(" ")
		zzFetchTree(c, out)
	}
	out.WriteString(")")
}

func zzDigest(resp *resolve.GraphQLResponse) string {
	var b bytes.Buffer
	zzFetchTree(resp.Fetches, &b)
	b.WriteString(" || ")
	zzShape(resp.Data, &b)
	return b.String()
}

var zzOps = []string{
	`{ me { id name reviews { body author { name } } } }`,
	`{ users { name reviews { id author { id reviews { body } } } } me { reviews { body } } }`,
	`query($a: Boolean!) { me { ... on User { name @include(if: $a) } reviews { ...R } } } fragment R on Review { body author { name id } }`,
	`{ a: me { n: name } b: me { r: reviews { body } } }`,
}

// VerifC09Determinism: H-C09a. The plan (subgraph requests, fetch tree, response shape) of an operation does not
// depend on map iteration order (at most mapBudget non-default iteration orders per path, each a rotation) nor
// on the schedule of the planner's per-data-source goroutines.
func VerifC09Determinism(op, mapBudget, sched int) {
	verifExplore(0, 0)
	ref, ok := zzPlan(zzOps[op])
	verifAssert(ok, "reference planning succeeds")
	want := zzDigest(ref)
	verifObserveString("reference", want)
	verifExplore(mapBudget, sched)
	n := verifNativeRepeat(40)
	for i := 0; i < n; i++ {
		got, ok := zzPlan(zzOps[op])
		verifAssert(ok, "planning succeeds under every order")
		d := zzDigest(got)
		if d != want {
			verifObserveString("got", d)
			verifAssert(false, "the plan is independent of map iteration order and goroutine schedule")
		}
	}
	verifExplore(0, 0)
	verifCover("planned")
}

// ---- H-C09c: a plan does not depend on what was planned before (pooled planner helpers are reused)

const zzHistSuper = `
type Query { me: User users: [User!]! items: [Item!]! }
type User { id: ID! name: String! reviews: [Review!]! }
type Review { id: ID! body: String! author: User! }
union Item = A | B
type A { name: String }
type B { name: String }
`
const zzHistUsers = `
type Query { me: User users: [User!]! items: [Item!]! }
type User @key(fields: "id") { id: ID! name: String! }
union Item = A | B
type A { name: Int }
type B { name: String }
`

func zzHistConfig() plan.Configuration {
	c := zzConfig()
	c.DataSources[0] = zzDS("users", "http://users", zzHistUsers, &plan.DataSourceMetadata{
		RootNodes:          []plan.TypeField{{TypeName: "Query", FieldNames: []string{"me", "users", "items"}}, {TypeName: "User", FieldNames: []string{"id", "name"}}},
		ChildNodes:         []plan.TypeField{{TypeName: "A", FieldNames: []string{"name"}}, {TypeName: "B", FieldNames: []string{"name"}}},
		FederationMetaData: plan.FederationMetaData{Keys: []plan.FederationFieldConfiguration{{TypeName: "User", SelectionSet: "id"}}},
	})
	return c
}

func zzPlanWith(cfg plan.Configuration, super, operation string) (string, bool) {
	def := unsafeparser.ParseGraphqlDocumentString(super)
	op := unsafeparser.ParseGraphqlDocumentString(operation)
	if err := asttransform.MergeDefinitionWithBaseSchema(&def); err != nil {
		panic(err)
	}
	norm := astnormalization.NewWithOpts(astnormalization.WithExtractVariables(), astnormalization.WithInlineFragmentSpreads(), astnormalization.WithRemoveFragmentDefinitions(), astnormalization.WithRemoveUnusedVariables())
	var report operationreport.Report
	norm.NormalizeOperation(&op, &def, &report)
	astvalidation.DefaultOperationValidator().Validate(&op, &def, &report)
	if report.HasErrors() {
		return "invalid: " + report.Error(), false
	}
	p, err := plan.NewPlanner(cfg)
	if err != nil {
		panic(err)
	}
	pl := p.Plan(&op, &def, "", &report)
	if report.HasErrors() {
		return "plan error: " + report.Error(), false
	}
	postprocess.NewProcessor(postprocess.DisableResolveInputTemplates()).Process(pl)
	sp, ok := pl.(*plan.SynchronousResponsePlan)
	if !ok {
		return "not synchronous", false
	}
	return zzDigest(sp.Response), true
}

var zzHistOps = []string{
	`{ me { id name reviews { body } } }`,
	`{ items { ... on A { name } ... on B { name } } }`, // the subgraph declares A.name: Int, the supergraph String: the upstream operation is rejected (fields conflict)
	`{ users { name } }`,
	`{ h: me { id } }`,
}

// VerifC09History: H-C09c. Two plans in a row on one process (solver-chosen from 4 operations, one of which fails
// inside the data source planner), with sync.Pool handing back what was put (engine option pool_reuse): the second
// plan - success or failure, and its digest - is the one a fresh process produces for that operation.
func VerifC09History() {
	verifExplore(0, 0)
	cfg := zzHistConfig()
	first := zzHistOps[nondetChoice(len(zzHistOps))]
	second := zzHistOps[nondetChoice(len(zzHistOps))]
	verifObserveString("input", first+" | "+second)
	// reference for the second operation, before anything else was planned
	want, wantOK := zzPlanWith(zzHistConfig(), zzHistSuper, second)
	_, _ = zzPlanWith(cfg, zzHistSuper, first)
	got, gotOK := zzPlanWith(cfg, zzHistSuper, second)
	if gotOK != wantOK || (gotOK && got != want) {
		verifObserveString("fresh", want)
		verifObserveString("after-history", got)
		verifAssert(false, "a plan does not depend on what was planned before")
	}
	if wantOK {
		verifCover("second plan succeeds")
	} else {
		verifCover("second plan fails")
	}
}
