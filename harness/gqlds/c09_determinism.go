package PKG

import (
	"bytes"
	"fmt"
	"sort"

	"github.com/wundergraph/graphql-go-tools/v2/pkg/engine/resolve"
)

// zzShape renders the response shape of a plan (field names, paths, nullability, type names, possible
// types, type conditions, defer ids) canonically.
func zzShape(n resolve.Node, out *bytes.Buffer) {
	switch x := n.(type) {
	case *resolve.Object:
		fmt.Fprintf(out, "O(%v,%v,%s,[", x.Path, x.Nullable, x.TypeName)
		var pt []string
		for k := range x.PossibleTypes {
			pt = append(pt, k)
		}
		sort.Strings(pt)
		fmt.Fprintf(out, "%v]){", pt)
		for _, f := range x.Fields {
			fmt.Fprintf(out, "%s", f.Name)
			for _, t := range f.OnTypeNames {
				fmt.Fprintf(out, "|on %s", t)
			}
			for _, t := range f.ParentOnTypeNames {
				fmt.Fprintf(out, "|pon %d:%s", t.Depth, bytes.Join(t.Names, []byte(",")))
			}
			out.WriteString(":")
			zzShape(f.Value, out)
			out.WriteString(";")
		}
		out.WriteString("}")
	case *resolve.Array:
		fmt.Fprintf(out, "A(%v,%v)[", x.Path, x.Nullable)
		zzShape(x.Item, out)
		out.WriteString("]")
	case nil:
		out.WriteString("nil")
	default:
		fmt.Fprintf(out, "L(%d,%v,%v)", n.NodeKind(), n.NodePath(), n.NodeNullable())
	}
}

// zzFetchTree renders the fetch tree: structure, per fetch its subgraph request, merge path, dependencies.
func zzFetchTree(n *resolve.FetchTreeNode, out *bytes.Buffer) {
	if n == nil {
		out.WriteString("nil")
		return
	}
	fmt.Fprintf(out, "%d(", n.Kind)
	if n.Item != nil && n.Item.Fetch != nil {
		if sf, ok := n.Item.Fetch.(*resolve.SingleFetch); ok {
			var path []string
			for _, e := range n.Item.FetchPath {
				path = append(path, fmt.Sprintf("%d:%s", e.Kind, e.Path))
			}
			deps := sf.Dependencies()
			fmt.Fprintf(out, "F#%d deps=%v at %v post=%v in=%s", deps.FetchID, deps.DependsOnFetchIDs, path, sf.PostProcessing.MergePath, sf.Input)
			if sf.Info != nil {
				fmt.Fprintf(out, " ds=%s roots=%v", sf.Info.DataSourceID, sf.Info.RootFields)
			}
		}
	}
	for _, c := range n.ChildNodes {
		out.WriteString(" ")
		zzFetchTree(c, out)
	}
	out.WriteString(")")
}

func zzDigest(resp *resolve.GraphQLResponse) string {
	var b bytes.Buffer
	zzFetchTree(resp.Fetches, &b)
	b.WriteString(" || ")
	zzShape(resp.Data, &b)
	return b.String()
}

var zzOps = []string{
	`{ me { id name reviews { body author { name } } } }`,
	`{ users { name reviews { id author { id reviews { body } } } } me { reviews { body } } }`,
	`query($a: Boolean!) { me { ... on User { name @include(if: $a) } reviews { ...R } } } fragment R on Review { body author { name id } }`,
	`{ a: me { n: name } b: me { r: reviews { body } } }`,
}

// VerifC09Determinism: H-C09a. The plan (subgraph requests, fetch tree, response shape) of an operation does not
// depend on map iteration order (at most mapBudget non-default iteration orders per path, each a rotation) nor
// on the schedule of the planner's per-data-source goroutines.
func VerifC09Determinism(op, mapBudget, sched int) {
	verifExplore(0, 0)
	ref, ok := zzPlan(zzOps[op])
	verifAssert(ok, "reference planning succeeds")
	want := zzDigest(ref)
	verifObserveString("reference", want)
	verifExplore(mapBudget, sched)
	n := verifNativeRepeat(40)
	for i := 0; i < n; i++ {
		got, ok := zzPlan(zzOps[op])
		verifAssert(ok, "planning succeeds under every order")
		d := zzDigest(got)
		if d != want {
			verifObserveString("got", d)
			verifAssert(false, "the plan is independent of map iteration order and goroutine schedule")
		}
	}
	verifExplore(0, 0)
	verifCover("planned")
}
