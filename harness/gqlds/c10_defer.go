package PKG

import (
	"bytes"
	"context"
	"encoding/json"
	"sort"
	"strconv"
	"strings"

	"github.com/wundergraph/astjson"

	"github.com/wundergraph/graphql-go-tools/v2/pkg/astnormalization"
	"github.com/wundergraph/graphql-go-tools/v2/pkg/astparser"
	"github.com/wundergraph/graphql-go-tools/v2/pkg/asttransform"
	"github.com/wundergraph/graphql-go-tools/v2/pkg/astvalidation"
	"github.com/wundergraph/graphql-go-tools/v2/pkg/engine/plan"
	"github.com/wundergraph/graphql-go-tools/v2/pkg/engine/postprocess"
	"github.com/wundergraph/graphql-go-tools/v2/pkg/engine/resolve"
	"github.com/wundergraph/graphql-go-tools/v2/pkg/operationreport"
)

// zzFrames records the frames of an incremental delivery stream: a frame is what was written between two flushes.
type zzFrames struct {
	cur       bytes.Buffer
	frames    []string
	completed int
	writing   bool
	overlap   bool
}

func (w *zzFrames) Write(p []byte) (int, error) {
	if w.writing {
		w.overlap = true
	}
	w.writing = true
	n, err := w.cur.Write(p)
	w.writing = false
	return n, err
}
func (w *zzFrames) Flush() error {
	w.frames = append(w.frames, w.cur.String())
	w.cur.Reset()
	return nil
}
func (w *zzFrames) Complete() { w.completed++ }

func zzPlanDefer(f *zzFed, operation string) (plan.Plan, []byte, string) {
	def, _ := astparser.ParseGraphqlDocumentString(f.super)
	op, rep := astparser.ParseGraphqlDocumentString(operation)
	if rep.HasErrors() {
		return nil, nil, "parse: " + rep.Error()
	}
	if err := asttransform.MergeDefinitionWithBaseSchema(&def); err != nil {
		panic(err)
	}
	var report operationreport.Report
	norm := astnormalization.NewWithOpts(astnormalization.WithExtractVariables(), astnormalization.WithInlineFragmentSpreads(), astnormalization.WithRemoveFragmentDefinitions(), astnormalization.WithRemoveUnusedVariables(), astnormalization.WithEnableDefer())
	norm.NormalizeOperation(&op, &def, &report)
	if report.HasErrors() {
		return nil, nil, "normalize: " + report.Error()
	}
	astvalidation.DefaultOperationValidator().Validate(&op, &def, &report)
	if report.HasErrors() {
		return nil, nil, "validate: " + report.Error()
	}
	p, err := plan.NewPlanner(f.config)
	if err != nil {
		panic(err)
	}
	pl := p.Plan(&op, &def, "", &report)
	if report.HasErrors() {
		return nil, nil, "plan: " + report.Error()
	}
	postprocess.NewProcessor().Process(pl)
	return pl, op.Input.Variables, ""
}

func zzReplaceDeferSources(n *resolve.DeferTreeNode, ds resolve.DataSource) {
	if n == nil {
		return
	}
	if n.Item != nil {
		zzReplaceSources(n.Item.Fetches, ds)
	}
	for _, c := range n.ChildNodes {
		zzReplaceDeferSources(c, ds)
	}
}

// zzMergeAt merges value v into root at path (strings are keys, numbers indices).
func zzMergeAt(root interface{}, path []interface{}, v interface{}) (interface{}, bool) {
	if len(path) == 0 {
		rm, ok1 := root.(map[string]interface{})
		vm, ok2 := v.(map[string]interface{})
		if !ok1 || !ok2 {
			return root, false
		}
		for k, x := range vm {
			if old, has := rm[k]; has {
				if om, isObj := old.(map[string]interface{}); isObj {
					if xm, isObj2 := x.(map[string]interface{}); isObj2 {
						merged, ok := zzMergeAt(om, nil, xm)
						if !ok {
							return root, false
						}
						rm[k] = merged
						continue
					}
				}
			}
			rm[k] = x
		}
		return rm, true
	}
	switch p := path[0].(type) {
	case string:
		rm, ok := root.(map[string]interface{})
		if !ok {
			return root, false
		}
		child, has := rm[p]
		if !has || child == nil {
			return root, false
		}
		merged, ok := zzMergeAt(child, path[1:], v)
		rm[p] = merged
		return rm, ok
	case float64:
		ra, ok := root.([]interface{})
		i := int(p)
		if !ok || i < 0 || i >= len(ra) || ra[i] == nil {
			return root, false
		}
		merged, ok := zzMergeAt(ra[i], path[1:], v)
		ra[i] = merged
		return ra, ok
	}
	return root, false
}

type zzIncFrame struct {
	Data        json.RawMessage `json:"data"`
	Errors      json.RawMessage `json:"errors"`
	Pending     []struct {
		ID   string        `json:"id"`
		Path []interface{} `json:"path"`
	} `json:"pending"`
	Incremental []struct {
		ID      string          `json:"id"`
		Data    json.RawMessage `json:"data"`
		SubPath []interface{}   `json:"subPath"`
		Errors  json.RawMessage `json:"errors"`
	} `json:"incremental"`
	Completed []struct {
		ID     string          `json:"id"`
		Errors json.RawMessage `json:"errors"`
	} `json:"completed"`
	HasNext *bool `json:"hasNext"`
}

// ---- generator: F1 operations with @defer on inline fragments (siblings, nested, in lists)

func (g *zzOpGen) deferred(typ, sel string) string {
	if g.opt() {
		return " ... @defer {" + sel + " }"
	}
	if g.opt() {
		return " ... on " + typ + " @defer {" + sel + " }"
	}
	return sel
}

func (g *zzOpGen) userD(depth int) string {
	s := " id"
	s += g.deferred("User", " name")
	if g.opt() {
		s += g.deferred("User", " username")
	}
	if depth > 0 && g.opt() {
		s += g.deferred("User", " reviews { body"+g.reviewD(depth-1)+" }")
	}
	return s
}

func (g *zzOpGen) reviewD(depth int) string {
	s := ""
	if depth > 0 && g.opt() {
		s += g.deferred("Review", " author {"+g.userD(depth-1)+" }")
	}
	if g.opt() {
		s += g.deferred("Review", " product { upc"+g.deferred("Product", " name")+" }")
	}
	return s
}

func (g *zzOpGen) queryD(depth int) string {
	switch nondetChoice(3) {
	case 0:
		return "{ me {" + g.userD(depth) + " } }"
	case 1:
		return "{ users {" + g.userD(depth) + " } }"
	}
	return "{ topProducts { upc" + g.deferred("Product", " name price") + g.deferred("Product", " reviews { body"+g.reviewD(depth)+" }") + " } }"
}

func zzStripDefer(op string) string {
	for _, l := range []string{` @defer(label: "a")`, ` @defer(label: "b")`, " @defer"} {
		op = strings.ReplaceAll(op, l, "")
	}
	return op
}

// VerifC10Defer: H-C10a. For every generated operation with @defer (at most `budget` optional parts, nesting
// `depth`) on federation F1, and - with sched != 0 - every completion order of the deferred fetch groups within the
// preemption bound: the stream is well-formed and applying the incremental payloads to the initial payload
// reconstructs the data of the same operation without @defer.
func VerifC10Defer(depth, budget, sched int) {
	verifExplore(0, 0)
	g := &zzOpGen{budget: budget}
	operation := g.queryD(depth)
	zzRunDefer(operation, sched)
}

var zzDeferOps = []string{
	`{ me { id ... @defer { reviews { body ... @defer { author { name } } } } ... @defer { reviews { author { username } } } } }`,
	`{ things: users { id r: reviews { ... @defer { body } } } }`,
	`{ me { id ... @defer { reviews { body } } ... @defer { name ... @defer { username } } } }`,
	`{ users { id ... @defer { reviews { body product { upc ... @defer { name } } } } } }`,
	`{ topProducts { upc ... @defer(label: "a") { name } ... @defer(label: "b") { reviews { body author { id ... @defer { name } } } } } }`,
	`{ me { ... @defer { id } ... @defer { id name } } }`,
	`{ a: me { id ... @defer { name } } b: me { ... @defer { username } id } }`,
}

// VerifC10DeferOps: H-C10b. Fixed operations, each a shape the generator does not reach (the same object field under
// two defers with a nested defer, aliases above a defer below lists, nested defer next to an earlier sibling defer,
// labels, duplicate fields across defers, two aliased root fields), with schedule exploration.
func VerifC10DeferOps(sched int) {
	verifExplore(0, 0)
	zzRunDefer(zzDeferOps[nondetChoice(len(zzDeferOps))], sched)
}

func zzRunDefer(operation string, sched int) {
	f := zzFed1()
	verifObserveString("input", operation)
	w := zzWorld1(0)
	if !strings.Contains(operation, "@defer") {
		verifAssume(false)
	}
	pl, variables, rep := zzPlanDefer(f, operation)
	if rep != "" {
		verifObserveString("report", rep)
		verifAssert(false, "planning a valid operation with @defer never fails")
	}
	dp, ok := pl.(*plan.DeferResponsePlan)
	verifAssert(ok, "an operation with @defer gets a defer plan")
	subs := &zzSubgraphs{world: w, schemas: f.schemas}
	zzReplaceSources(dp.Response.Response.Fetches, subs)
	for _, d := range dp.Response.Defers {
		zzReplaceSources(d.Fetches, subs)
	}
	zzReplaceDeferSources(dp.Response.DeferTree, subs)
	r := resolve.New(context.Background(), resolve.ResolverOptions{MaxConcurrency: 8, PropagateSubgraphErrors: true})
	ctx := resolve.NewContext(context.Background())
	if len(variables) > 0 {
		ctx.Variables = astjson.MustParseBytes(variables)
	}
	out := &zzFrames{}
	verifExplore(0, sched)
	verifTerminates(400000000, "the deferred stream terminates")
	_, err := r.ResolveGraphQLDeferResponse(ctx, dp.Response, out)
	verifQuiesce()
	verifExplore(0, 0)
	verifAssert(err == nil, "resolving the deferred response succeeds")
	for _, fr := range out.frames {
		verifObserveString("frame", fr)
	}
	if subs.invalid != "" {
		verifObserveString("invalid", subs.invalid)
		verifAssert(false, "every subgraph request is valid")
	}
	verifAssert(!out.overlap, "frames are never interleaved")
	verifAssert(out.cur.Len() == 0, "everything written is flushed as a frame")
	verifAssert(len(out.frames) >= 1, "there is an initial frame")

	// ---- stream grammar and reconstruction
	pending := map[string][]interface{}{}
	announced := map[string]bool{}
	completed := map[string]int{}
	var data interface{}
	for i, raw := range out.frames {
		var fr zzIncFrame
		if err := json.Unmarshal([]byte(raw), &fr); err != nil {
			verifAssert(false, "every frame is a well-formed JSON object")
		}
		last := i == len(out.frames)-1
		verifAssert(fr.HasNext != nil && *fr.HasNext == !last, "hasNext is false on the last frame and only there")
		if i == 0 {
			verifAssert(len(fr.Incremental) == 0 && len(fr.Completed) == 0, "the initial frame carries no incremental or completed entries")
			if err := json.Unmarshal(fr.Data, &data); err != nil {
				verifAssert(false, "the initial frame has data")
			}
		} else {
			verifAssert(len(fr.Data) == 0, "only the initial frame has top-level data")
		}
		for _, inc := range fr.Incremental {
			verifAssert(announced[inc.ID], "nothing is delivered for an unannounced id")
			verifAssert(completed[inc.ID] == 0, "nothing is delivered for a completed id")
			var v interface{}
			if err := json.Unmarshal(inc.Data, &v); err != nil {
				verifAssert(false, "incremental data is JSON")
			}
			path := append(append([]interface{}(nil), pending[inc.ID]...), inc.SubPath...)
			merged, ok := zzMergeAt(data, path, v)
			if !ok {
				verifObserveString("unmergeable", inc.ID+" "+string(inc.Data))
				verifAssert(false, "an incremental payload applies at its announced path")
			}
			data = merged
		}
		for _, c := range fr.Completed {
			verifAssert(announced[c.ID], "only announced ids are completed")
			completed[c.ID]++
			verifAssert(completed[c.ID] == 1, "every pending id is completed exactly once")
		}
		// (pending entries of a frame announce ids for later frames)
		for _, p := range fr.Pending {
			verifAssert(!announced[p.ID], "an id is announced once")
			announced[p.ID] = true
			pending[p.ID] = p.Path
		}
	}
	var ids []string
	for id := range announced {
		ids = append(ids, id)
	}
	sort.Strings(ids)
	for _, id := range ids {
		if completed[id] != 1 {
			verifObserveString("uncompleted", id)
			verifAssert(false, "every pending id is completed exactly once")
		}
	}
	verifAssert(out.completed == 1, "the writer is completed once")

	plain := zzStripDefer(operation)
	want, wantErr := zzMonolith(f, w, plain, "")
	_ = wantErr
	gotBytes, _ := json.Marshal(data)
	got := string(gotBytes)
	if zzCanon(got) != zzCanon(want) {
		verifObserveString("reconstructed", got)
		verifObserveString("expected", want)
		verifAssert(false, "initial plus incremental payloads reconstruct the data of the query without @defer")
	}
	verifObserveInt("frames", len(out.frames))
	verifCover("reconstructed " + strconv.Itoa(0))
}
