package PKG

import (
	"github.com/wundergraph/graphql-go-tools/v2/pkg/ast"
	"github.com/wundergraph/graphql-go-tools/v2/pkg/astnormalization"
	"github.com/wundergraph/graphql-go-tools/v2/pkg/astparser"
	"github.com/wundergraph/graphql-go-tools/v2/pkg/asttransform"
	"github.com/wundergraph/graphql-go-tools/v2/pkg/astvalidation"
	"github.com/wundergraph/graphql-go-tools/v2/pkg/engine/plan"
	"github.com/wundergraph/graphql-go-tools/v2/pkg/engine/postprocess"
	"github.com/wundergraph/graphql-go-tools/v2/pkg/engine/resolve"
	"github.com/wundergraph/graphql-go-tools/v2/pkg/operationreport"
)

// ---- federation F1: users / reviews / products

const zzF1Super = `
type Query { me: User users: [User!]! topProducts: [Product] }
type User { id: ID! name: String! username: String reviews: [Review!]! }
type Review { id: ID! body: String! text(format: String, n: Int): String author: User! product: Product }
type Product { upc: String! name: String price: Int reviews: [Review!] }
`
const zzF1Users = `
type Query { me: User users: [User!]! }
type User @key(fields: "id") { id: ID! name: String! username: String }
`
const zzF1Reviews = `
type User @key(fields: "id") { id: ID! reviews: [Review!]! }
type Review @key(fields: "id") { id: ID! body: String! text(format: String, n: Int): String author: User! product: Product }
type Product @key(fields: "upc") { upc: String! reviews: [Review!] }
`
const zzF1Products = `
type Query { topProducts: [Product] }
type Product @key(fields: "upc") { upc: String! name: String price: Int }
`

type zzFed struct {
	super   string
	config  plan.Configuration
	schemas map[string]*ast.Document
}

func zzFedDS(f *zzFed, id, url, sdl string, meta *plan.DataSourceMetadata) plan.DataSource {
	sc, err := NewSchemaConfiguration(sdl, &FederationConfiguration{Enabled: true, ServiceSDL: sdl})
	if err != nil {
		panic(err)
	}
	f.schemas[url] = sc.upstreamSchemaAst
	cfg, err := NewConfiguration(ConfigurationInput{Fetch: &FetchConfiguration{URL: url}, SchemaConfiguration: sc})
	if err != nil {
		panic(err)
	}
	ds, err := plan.NewDataSourceConfiguration[Configuration](id, &Factory[Configuration]{}, meta, cfg)
	if err != nil {
		panic(err)
	}
	return ds
}

func zzKey(t, sel string) plan.FederationFieldConfiguration {
	return plan.FederationFieldConfiguration{TypeName: t, SelectionSet: sel}
}

func zzFed1() *zzFed {
	f := &zzFed{super: zzF1Super, schemas: map[string]*ast.Document{}}
	f.config = plan.Configuration{
		DataSources: []plan.DataSource{
			zzFedDS(f, "users", "http://users", zzF1Users, &plan.DataSourceMetadata{
				RootNodes:          []plan.TypeField{{TypeName: "Query", FieldNames: []string{"me", "users"}}, {TypeName: "User", FieldNames: []string{"id", "name", "username"}}},
				FederationMetaData: plan.FederationMetaData{Keys: []plan.FederationFieldConfiguration{zzKey("User", "id")}},
			}),
			zzFedDS(f, "reviews", "http://reviews", zzF1Reviews, &plan.DataSourceMetadata{
				RootNodes:          []plan.TypeField{{TypeName: "User", FieldNames: []string{"id", "reviews"}}, {TypeName: "Review", FieldNames: []string{"id", "body", "text", "author", "product"}}, {TypeName: "Product", FieldNames: []string{"upc", "reviews"}}},
				FederationMetaData: plan.FederationMetaData{Keys: []plan.FederationFieldConfiguration{zzKey("User", "id"), zzKey("Review", "id"), zzKey("Product", "upc")}},
			}),
			zzFedDS(f, "products", "http://products", zzF1Products, &plan.DataSourceMetadata{
				RootNodes:          []plan.TypeField{{TypeName: "Query", FieldNames: []string{"topProducts"}}, {TypeName: "Product", FieldNames: []string{"upc", "name", "price"}}},
				FederationMetaData: plan.FederationMetaData{Keys: []plan.FederationFieldConfiguration{zzKey("Product", "upc")}},
			}),
		},
		DisableResolveFieldPositions: true,
	}
	return f
}

func zzS(s string) string { return `"` + s + `"` }

// zzWorld1: the data behind F1. deviation selects one place where the data is null (0 = none).
func zzWorld1(deviation int) *zzWorld {
	u1 := &zzO{typ: "User", f: map[string]interface{}{"id": zzS("1"), "name": zzS("Ann"), "username": zzS("ann")}}
	u2 := &zzO{typ: "User", f: map[string]interface{}{"id": zzS("2"), "name": zzS("Bob"), "username": nil}}
	p1 := &zzO{typ: "Product", f: map[string]interface{}{"upc": zzS("p1"), "name": zzS("Table"), "price": "10"}}
	p2 := &zzO{typ: "Product", f: map[string]interface{}{"upc": zzS("p2"), "name": nil, "price": nil, "reviews": nil}}
	r1 := &zzO{typ: "Review", f: map[string]interface{}{"id": zzS("r1"), "body": zzS("good"), "text": zzS("t1"), "author": u1, "product": p1}}
	r2 := &zzO{typ: "Review", f: map[string]interface{}{"id": zzS("r2"), "body": zzS("bad"), "text": zzS("t2"), "author": u2, "product": nil}}
	u1.f["reviews"] = []interface{}{r1, r2}
	u2.f["reviews"] = []interface{}{}
	p1.f["reviews"] = []interface{}{r1}
	q := &zzO{typ: "Query", f: map[string]interface{}{"me": u1, "users": []interface{}{u1, u2}, "topProducts": []interface{}{p1, p2, nil}}}
	switch deviation {
	case 1:
		q.f["me"] = nil
	case 2:
		u1.f["name"] = nil // non-null violated in the users subgraph
	case 3:
		r1.f["body"] = nil // non-null violated in the reviews subgraph, inside a non-null list item
	case 4:
		r2.f["author"] = nil
	case 5:
		q.f["topProducts"] = nil
	case 6:
		p1.f["reviews"] = nil
	case 7:
		u1.f["reviews"] = nil // non-null list missing
	}
	return &zzWorld{query: q, entities: []*zzO{u1, u2, p1, p2, r1, r2}, keys: map[string][]string{"User": {"id"}, "Product": {"upc"}, "Review": {"id"}}}
}

type zzPlanned struct {
	resp      *resolve.GraphQLResponse
	variables []byte
	report    string
}

func zzPlanFed(f *zzFed, operation string, variables string, opts ...postprocess.ProcessorOption) (*zzPlanned, bool) {
	def, rep := astparser.ParseGraphqlDocumentString(f.super)
	if rep.HasErrors() {
		panic(rep.Error())
	}
	op, rep := astparser.ParseGraphqlDocumentString(operation)
	if rep.HasErrors() {
		return &zzPlanned{report: "parse: " + rep.Error()}, false
	}
	if variables != "" {
		op.Input.Variables = []byte(variables)
	}
	if err := asttransform.MergeDefinitionWithBaseSchema(&def); err != nil {
		panic(err)
	}
	var report operationreport.Report
	norm := astnormalization.NewWithOpts(astnormalization.WithExtractVariables(), astnormalization.WithInlineFragmentSpreads(), astnormalization.WithRemoveFragmentDefinitions(), astnormalization.WithRemoveUnusedVariables())
	norm.NormalizeOperation(&op, &def, &report)
	if report.HasErrors() {
		return &zzPlanned{report: "normalize: " + report.Error()}, false
	}
	astvalidation.DefaultOperationValidator().Validate(&op, &def, &report)
	if report.HasErrors() {
		return &zzPlanned{report: "validate: " + report.Error()}, false
	}
	p, err := plan.NewPlanner(f.config)
	if err != nil {
		panic(err)
	}
	pl := p.Plan(&op, &def, "", &report)
	if report.HasErrors() {
		return &zzPlanned{report: "plan: " + report.Error()}, false
	}
	postprocess.NewProcessor(opts...).Process(pl)
	sp, ok := pl.(*plan.SynchronousResponsePlan)
	if !ok {
		return &zzPlanned{report: "not a synchronous plan"}, false
	}
	return &zzPlanned{resp: sp.Response, variables: op.Input.Variables}, true
}

// zzMonolith: the single server owning all the data executes the client's operation.
func zzMonolith(f *zzFed, w *zzWorld, operation, variables string) (string, bool) {
	def, _ := astparser.ParseGraphqlDocumentString(f.super)
	if err := asttransform.MergeDefinitionWithBaseSchema(&def); err != nil {
		panic(err)
	}
	op, _ := astparser.ParseGraphqlDocumentString(operation)
	vars := map[string]string{}
	if variables != "" {
		keys, vals, _ := zzFields([]byte(variables))
		for i, k := range keys {
			vars[k] = string(vals[i])
		}
	}
	ex := &zzExec{schema: &def, op: &op, vars: vars, computed: w.computed, argAware: w.argAware}
	data := ex.run(w.query)
	return data, ex.errors > 0
}

func zzParseBoth(f *zzFed, operation string) (*ast.Document, *ast.Document) {
	def, _ := astparser.ParseGraphqlDocumentString(f.super)
	if err := asttransform.MergeDefinitionWithBaseSchema(&def); err != nil {
		panic(err)
	}
	op, _ := astparser.ParseGraphqlDocumentString(operation)
	return &def, &op
}

// ---- operation generator: optional parts, each consuming one unit of budget

type zzOpGen struct{ budget int }

func (g *zzOpGen) opt() bool {
	if g.budget > 0 && nondetBool() {
		g.budget--
		return true
	}
	return false
}

func (g *zzOpGen) fields(cands []string) string {
	out := ""
	for _, c := range cands {
		if g.opt() {
			out += " " + c
		}
	}
	return out
}

func (g *zzOpGen) user(depth int) string {
	s := g.fields([]string{"id", "name", "username"})
	if depth > 0 && g.opt() {
		s += " reviews {" + g.review(depth-1) + " }"
	}
	if s == "" {
		s = " name"
	}
	return s
}

func (g *zzOpGen) review(depth int) string {
	s := g.fields([]string{"id", "body"})
	if depth > 0 && g.opt() {
		s += " author {" + g.user(depth-1) + " }"
	}
	if depth > 0 && g.opt() {
		s += " product {" + g.product(depth-1) + " }"
	}
	if s == "" {
		s = " body"
	}
	return s
}

func (g *zzOpGen) product(depth int) string {
	s := g.fields([]string{"upc", "name", "price"})
	if depth > 0 && g.opt() {
		s += " reviews {" + g.review(depth-1) + " }"
	}
	if s == "" {
		s = " name"
	}
	return s
}

func (g *zzOpGen) query(depth int) string {
	s := ""
	switch nondetChoice(3) {
	case 0:
		s = " me {" + g.user(depth) + " }"
	case 1:
		s = " users {" + g.user(depth) + " }"
	case 2:
		s = " topProducts {" + g.product(depth) + " }"
	}
	if g.opt() {
		s += " u2: users {" + g.user(depth-1) + " }"
	}
	return "{" + s + " }"
}

// VerifC01Fed: H-C01a. For every generated operation (one root field of three, optional fields/sub-objects up to
// `depth`, at most `budget` optional parts) and every single-null deviation of the data (0..maxDev), the gateway
// (real normalization, validation, planner, post-processing, loader, resolvable; stub subgraphs executing the
// subgraph queries with the reference executor on the same data) returns the `data` the monolith returns, errors
// iff the monolith has errors; planning never fails; every subgraph request validates against the subgraph schema.
func VerifC01Fed(depth, budget, maxDev int) {
	verifExplore(0, 0)
	f := zzFed1()
	g := &zzOpGen{budget: budget}
	operation := g.query(depth)
	verifObserveString("input", operation)
	dev := 0
	if maxDev > 0 {
		dev = nondetChoice(maxDev + 1)
	}
	verifObserveInt("deviation", dev)
	w := zzWorld1(dev)
	pl, ok := zzPlanFed(f, operation, "")
	if !ok {
		verifObserveString("report", pl.report)
		verifAssert(false, "planning a valid operation never fails")
	}
	subs := &zzSubgraphs{world: w, schemas: f.schemas}
	got, err := zzGateway(pl.resp, pl.variables, subs)
	verifAssert(err == nil, "resolving succeeds")
	verifObserveString("response", got)
	for _, l := range subs.log {
		verifObserveString("subgraph-request", l)
	}
	if subs.invalid != "" {
		verifObserveString("invalid", subs.invalid)
		verifAssert(false, "every subgraph request is a valid operation of that subgraph's own schema")
	}
	want, wantErr := zzMonolith(f, w, operation, "")
	verifObserveString("monolith", want)
	data, hasErr, okj := zzDataOf(got)
	verifAssert(okj, "response is well-formed JSON")
	verifAssert(zzCanon(data) == zzCanon(want), "gateway data equals the monolith's data")
	verifAssert(hasErr == wantErr, "the gateway reports errors exactly when the monolith does")
	if wantErr {
		verifCover("with errors")
	} else {
		verifCover("clean")
	}
}
