package PKG

import (
	"github.com/wundergraph/graphql-go-tools/v2/pkg/engine/postprocess"
)

// VerifC09Options: H-C09b. Turning fetch de-duplication off, multi-fetch merging on, DAG scheduling on (alone and
// together), or parallel node creation off never changes the response; executing a plan a second time (as served
// from a plan cache) gives the same response as the first time. Operation and option set are solver-chosen;
// sched != 0 explores the loader's goroutine schedules for the optimized plan.
func VerifC09Options(maxDev, sched int) {
	verifExplore(0, 0)
	f := zzFed2()
	operation := zzF2Ops[nondetChoice(len(zzF2Ops))]
	verifObserveString("input", operation)
	dev := 0
	if maxDev > 0 {
		dev = nondetChoice(maxDev + 1)
	}
	w := zzWorld2(dev)
	base, ok := zzPlanFed(f, operation, "")
	verifAssert(ok, "planning succeeds")
	subs0 := &zzSubgraphs{world: w, schemas: f.schemas}
	got0, err := zzGateway(base.resp, base.variables, subs0)
	verifAssert(err == nil, "resolving succeeds")
	// plan reuse
	subs1 := &zzSubgraphs{world: w, schemas: f.schemas}
	got1, err := zzGateway(base.resp, base.variables, subs1)
	verifAssert(err == nil, "resolving the cached plan succeeds")
	verifAssert(got0 == got1, "a plan served from the cache gives the same response")

	var opts []postprocess.ProcessorOption
	which := nondetChoice(5)
	verifObserveInt("options", which)
	switch which {
	case 0:
		opts = append(opts, postprocess.DisableDeduplicateSingleFetches())
	case 1:
		opts = append(opts, postprocess.EnableMultiFetch())
	case 2:
		opts = append(opts, postprocess.EnableScheduleFetches())
	case 3:
		opts = append(opts, postprocess.EnableMultiFetch(), postprocess.EnableScheduleFetches())
	case 4:
		opts = append(opts, postprocess.DisableCreateParallelNodes())
	}
	alt, ok := zzPlanFed(f, operation, "", opts...)
	verifAssert(ok, "planning with the option set succeeds")
	subs2 := &zzSubgraphs{world: w, schemas: f.schemas}
	if sched != 0 {
		verifExplore(0, 1)
	}
	got2, err := zzGateway(alt.resp, alt.variables, subs2)
	verifExplore(0, 0)
	verifAssert(err == nil, "resolving with the option set succeeds")
	if subs2.invalid != "" {
		verifObserveString("invalid", subs2.invalid)
		verifAssert(false, "every subgraph request stays valid with the option set")
	}
	d0, e0, _ := zzDataOf(got0)
	d2, e2, _ := zzDataOf(got2)
	if zzCanon(d0) != zzCanon(d2) || e0 != e2 {
		verifObserveString("default", got0)
		verifObserveString("with-options", got2)
		verifAssert(false, "plan optimizations do not change the response")
	}
	verifCover("compared")
}
