package PKG

import (
	"bytes"
	"context"
	"encoding/json"
	"net/http"
	"strings"

	"github.com/wundergraph/astjson"

	"github.com/wundergraph/graphql-go-tools/v2/pkg/ast"
	"github.com/wundergraph/graphql-go-tools/v2/pkg/astparser"
	"github.com/wundergraph/graphql-go-tools/v2/pkg/astvalidation"
	"github.com/wundergraph/graphql-go-tools/v2/pkg/engine/datasource/httpclient"
	"github.com/wundergraph/graphql-go-tools/v2/pkg/engine/resolve"
	"github.com/wundergraph/graphql-go-tools/v2/pkg/operationreport"
)

// ---- reference GraphQL executor (the spec's ExecuteSelectionSet / CollectFields / CompleteValue) over an
// in-memory object graph. It serves both as the monolithic server owning all the data and, run against a
// subgraph's own schema, as that subgraph.

type zzO struct {
	typ string
	f   map[string]interface{} // nil | string (raw JSON scalar) | *zzO | []interface{}
}

type zzExec struct {
	schema   *ast.Document
	op       *ast.Document
	vars     map[string]string // name -> raw JSON
	errors   int
	unknown  string // first selected field the schema does not define
	entities func(repr []byte) *zzO
}

const zzProp = "\x00P"

type zzCollected struct {
	key  string
	refs []int
}

func (e *zzExec) directivesAllow(refs []int) bool {
	for _, d := range refs {
		name := e.op.DirectiveNameString(d)
		if name != "skip" && name != "include" {
			continue
		}
		v, ok := e.op.DirectiveArgumentValueByName(d, []byte("if"))
		if !ok {
			continue
		}
		b := false
		switch v.Kind {
		case ast.ValueKindBoolean:
			b = bool(e.op.BooleanValue(v.Ref))
		case ast.ValueKindVariable:
			b = e.vars[e.op.VariableValueNameString(v.Ref)] == "true"
		}
		if name == "skip" && b {
			return false
		}
		if name == "include" && !b {
			return false
		}
	}
	return true
}

func (e *zzExec) typeApplies(cond, runtime string) bool {
	if cond == runtime {
		return true
	}
	node, ok := e.schema.NodeByNameStr(cond)
	if !ok {
		return false
	}
	rt, ok := e.schema.NodeByNameStr(runtime)
	if !ok {
		return false
	}
	switch node.Kind {
	case ast.NodeKindInterfaceTypeDefinition:
		return e.schema.NodeImplementsInterface(rt, []byte(cond))
	case ast.NodeKindUnionTypeDefinition:
		names, _ := e.schema.UnionTypeDefinitionMemberTypeNames(node.Ref)
		for _, n := range names {
			if n == runtime {
				return true
			}
		}
	}
	return false
}

func (e *zzExec) collect(set int, typ string, out *[]zzCollected, visited map[string]bool) {
	for _, sel := range e.op.SelectionSets[set].SelectionRefs {
		s := e.op.Selections[sel]
		switch s.Kind {
		case ast.SelectionKindField:
			if e.op.FieldHasDirectives(s.Ref) && !e.directivesAllow(e.op.FieldDirectives(s.Ref)) {
				continue
			}
			key := e.op.FieldAliasOrNameString(s.Ref)
			found := false
			for i := range *out {
				if (*out)[i].key == key {
					(*out)[i].refs = append((*out)[i].refs, s.Ref)
					found = true
				}
			}
			if !found {
				*out = append(*out, zzCollected{key: key, refs: []int{s.Ref}})
			}
		case ast.SelectionKindInlineFragment:
			fr := e.op.InlineFragments[s.Ref]
			if fr.HasDirectives && !e.directivesAllow(fr.Directives.Refs) {
				continue
			}
			if e.op.InlineFragmentHasTypeCondition(s.Ref) && !e.typeApplies(e.op.InlineFragmentTypeConditionNameString(s.Ref), typ) {
				continue
			}
			if fr.HasSelections {
				e.collect(fr.SelectionSet, typ, out, visited)
			}
		case ast.SelectionKindFragmentSpread:
			name := e.op.FragmentSpreadNameString(s.Ref)
			if visited[name] {
				continue
			}
			visited[name] = true
			fd, ok := e.op.FragmentDefinitionRef([]byte(name))
			if !ok {
				continue
			}
			def := e.op.FragmentDefinitions[fd]
			cond := e.op.ResolveTypeNameString(def.TypeCondition.Type)
			if !e.typeApplies(cond, typ) {
				continue
			}
			e.collect(def.SelectionSet, typ, out, visited)
		}
	}
}

// selection executes the merged selection sets on obj; returns the JSON object or zzProp.
func (e *zzExec) selection(sets []int, obj *zzO) string {
	var fields []zzCollected
	visited := map[string]bool{}
	for _, s := range sets {
		e.collect(s, obj.typ, &fields, visited)
	}
	var out bytes.Buffer
	out.WriteByte('{')
	for i, f := range fields {
		if i > 0 {
			out.WriteByte(',')
		}
		v := e.field(f, obj)
		if v == zzProp {
			return zzProp
		}
		out.WriteString(`"` + f.key + `":` + v)
	}
	out.WriteByte('}')
	return out.String()
}

func (e *zzExec) field(f zzCollected, obj *zzO) string {
	name := e.op.FieldNameString(f.refs[0])
	if name == "__typename" {
		return `"` + obj.typ + `"`
	}
	if name == "_entities" && e.entities != nil {
		return e.entitiesField(f)
	}
	node, ok := e.schema.NodeByNameStr(obj.typ)
	if !ok {
		if e.unknown == "" {
			e.unknown = "type " + obj.typ
		}
		return "null"
	}
	fd, ok := e.schema.NodeFieldDefinitionByName(node, []byte(name))
	if !ok {
		if e.unknown == "" {
			e.unknown = obj.typ + "." + name
		}
		return "null"
	}
	return e.complete(e.schema.FieldDefinitionType(fd), f.refs, obj.f[name])
}

func (e *zzExec) complete(typeRef int, refs []int, v interface{}) string {
	t := e.schema.Types[typeRef]
	if t.TypeKind == ast.TypeKindNonNull {
		r := e.complete(t.OfType, refs, v)
		if r == "null" {
			e.errors++
			return zzProp
		}
		return r
	}
	if v == nil {
		return "null"
	}
	if t.TypeKind == ast.TypeKindList {
		l, ok := v.([]interface{})
		if !ok {
			e.errors++
			return "null"
		}
		var out bytes.Buffer
		out.WriteByte('[')
		for i, it := range l {
			if i > 0 {
				out.WriteByte(',')
			}
			r := e.complete(t.OfType, refs, it)
			if r == zzProp {
				return "null"
			}
			out.WriteString(r)
		}
		out.WriteByte(']')
		return out.String()
	}
	switch x := v.(type) {
	case string:
		return x
	case *zzO:
		var sets []int
		for _, r := range refs {
			if s, ok := e.op.FieldSelectionSet(r); ok {
				sets = append(sets, s)
			}
		}
		r := e.selection(sets, x)
		if r == zzProp {
			return "null"
		}
		return r
	}
	return "null"
}

func (e *zzExec) entitiesField(f zzCollected) string {
	arg, ok := e.op.FieldArgument(f.refs[0], []byte("representations"))
	if !ok {
		e.errors++
		return zzProp
	}
	val := e.op.ArgumentValue(arg)
	var raw []byte
	if val.Kind == ast.ValueKindVariable {
		raw = []byte(e.vars[e.op.VariableValueNameString(val.Ref)])
	} else {
		raw, _ = e.op.ValueToJSON(val)
	}
	var reprs []json.RawMessage
	if err := json.Unmarshal(raw, &reprs); err != nil {
		e.errors++
		return zzProp
	}
	var sets []int
	for _, r := range f.refs {
		if s, ok := e.op.FieldSelectionSet(r); ok {
			sets = append(sets, s)
		}
	}
	var out bytes.Buffer
	out.WriteByte('[')
	for i, r := range reprs {
		if i > 0 {
			out.WriteByte(',')
		}
		o := e.entities(r)
		if o == nil {
			out.WriteString("null")
			continue
		}
		v := e.selection(sets, o)
		if v == zzProp {
			v = "null"
		}
		out.WriteString(v)
	}
	out.WriteByte(']')
	return out.String()
}

func (e *zzExec) run(root *zzO) string {
	for i := range e.op.RootNodes {
		if e.op.RootNodes[i].Kind == ast.NodeKindOperationDefinition {
			od := e.op.OperationDefinitions[e.op.RootNodes[i].Ref]
			r := e.selection([]int{od.SelectionSet}, root)
			if r == zzProp {
				return "null"
			}
			return r
		}
	}
	return "null"
}

// ---- the world: one object graph shared by the monolith and all subgraphs

type zzWorld struct {
	query    *zzO
	entities []*zzO
	keys     map[string][]string // type -> key field names
}

func (w *zzWorld) lookup(repr []byte) *zzO {
	var m map[string]json.RawMessage
	if err := json.Unmarshal(repr, &m); err != nil {
		return nil
	}
	var tn string
	_ = json.Unmarshal(m["__typename"], &tn)
	for _, o := range w.entities {
		if o.typ != tn {
			continue
		}
		match := true
		for _, k := range w.keys[tn] {
			want, _ := o.f[k].(string)
			got, has := m[k]
			if !has || string(bytes.TrimSpace(got)) != want {
				match = false
			}
		}
		if match {
			return o
		}
	}
	return nil
}

// ---- stub subgraphs behind the real loader

type zzSubgraphs struct {
	world   *zzWorld
	schemas map[string]*ast.Document // url -> subgraph schema (federation upstream schema)
	log     []string
	invalid string
	fail    map[string]int // url -> failure mode (0 none)
	calls   map[string]int
}

func (s *zzSubgraphs) Load(ctx context.Context, headers http.Header, input []byte) ([]byte, error) {
	var req struct {
		URL  string `json:"url"`
		Body struct {
			Query     string                     `json:"query"`
			Variables map[string]json.RawMessage `json:"variables"`
		} `json:"body"`
	}
	if err := json.Unmarshal(input, &req); err != nil {
		s.invalid = "request input is not valid JSON: " + string(input)
		return []byte(`{"errors":[{"message":"bad input"}]}`), nil
	}
	s.log = append(s.log, req.URL+" "+req.Body.Query)
	if s.calls == nil {
		s.calls = map[string]int{}
	}
	s.calls[req.URL]++
	schema := s.schemas[req.URL]
	if schema == nil {
		s.invalid = "request to unknown subgraph " + req.URL
		return []byte(`{"errors":[{"message":"unknown subgraph"}]}`), nil
	}
	doc, report := astparser.ParseGraphqlDocumentString(req.Body.Query)
	if report.HasErrors() {
		s.invalid = "subgraph query does not parse: " + req.Body.Query
		return []byte(`{"errors":[{"message":"parse"}]}`), nil
	}
	var vr operationreport.Report
	astvalidation.DefaultOperationValidator().Validate(&doc, schema, &vr)
	if vr.HasErrors() && s.invalid == "" {
		s.invalid = "subgraph query is not valid for " + req.URL + ": " + req.Body.Query + " -- " + vr.Error()
	}
	vars := map[string]string{}
	for k, v := range req.Body.Variables {
		vars[k] = string(v)
	}
	ex := &zzExec{schema: schema, op: &doc, vars: vars, entities: s.world.lookup}
	data := ex.run(s.world.query)
	if ex.unknown != "" && s.invalid == "" {
		s.invalid = "subgraph " + req.URL + " was asked for a field it does not own: " + ex.unknown
	}
	if ex.errors > 0 {
		return []byte(`{"errors":[{"message":"subgraph error"}],"data":` + data + `}`), nil
	}
	return []byte(`{"data":` + data + `}`), nil
}

func (s *zzSubgraphs) LoadWithFiles(ctx context.Context, headers http.Header, input []byte, files []*httpclient.FileUpload) ([]byte, error) {
	return s.Load(ctx, headers, input)
}

func zzReplaceSources(n *resolve.FetchTreeNode, ds resolve.DataSource) {
	if n == nil {
		return
	}
	if n.Item != nil && n.Item.Fetch != nil {
		switch f := n.Item.Fetch.(type) {
		case *resolve.SingleFetch:
			f.DataSource = ds
		case *resolve.EntityFetch:
			f.DataSource = ds
		case *resolve.BatchEntityFetch:
			f.DataSource = ds
		}
	}
	for _, c := range n.ChildNodes {
		zzReplaceSources(c, ds)
	}
}

// zzGateway executes a planned response through the real resolver with the stub subgraphs.
func zzGateway(resp *resolve.GraphQLResponse, variables []byte, subs *zzSubgraphs) (string, error) {
	zzReplaceSources(resp.Fetches, subs)
	r := resolve.New(context.Background(), resolve.ResolverOptions{MaxConcurrency: 4, PropagateSubgraphErrors: true})
	ctx := resolve.NewContext(context.Background())
	if len(variables) > 0 {
		ctx.Variables = astjson.MustParseBytes(variables)
	}
	var out bytes.Buffer
	_, err := r.ResolveGraphQLResponse(ctx, resp, nil, &out)
	return out.String(), err
}

func zzDataOf(response string) (data string, hasErrors bool, ok bool) {
	var m map[string]json.RawMessage
	if err := json.Unmarshal([]byte(response), &m); err != nil {
		return "", false, false
	}
	_, hasErrors = m["errors"]
	return strings.TrimSpace(string(m["data"])), hasErrors, true
}
