package PKG

import (
	"bytes"
	"context"
	"encoding/json"
	"errors"
	"net/http"
	"strings"

	"github.com/wundergraph/astjson"

	"github.com/wundergraph/graphql-go-tools/v2/pkg/ast"
	"github.com/wundergraph/graphql-go-tools/v2/pkg/astparser"
	"github.com/wundergraph/graphql-go-tools/v2/pkg/astvalidation"
	"github.com/wundergraph/graphql-go-tools/v2/pkg/engine/datasource/httpclient"
	"github.com/wundergraph/graphql-go-tools/v2/pkg/engine/resolve"
	"github.com/wundergraph/graphql-go-tools/v2/pkg/operationreport"
)

// ---- the world: one object graph shared by the monolith and all subgraphs

type zzWorld struct {
	query    *zzO
	entities []*zzO
	keys     map[string][]string // type -> key field names
	computed map[string]zzComputed
	argAware map[string]bool
}

func (w *zzWorld) lookup(repr []byte) *zzO {
	var m map[string]json.RawMessage
	if err := json.Unmarshal(repr, &m); err != nil {
		return nil
	}
	var tn string
	_ = json.Unmarshal(m["__typename"], &tn)
	for _, o := range w.entities {
		if o.typ != tn {
			continue
		}
		match := true
		for _, k := range w.keys[tn] {
			want, _ := o.f[k].(string)
			got, has := m[k]
			if !has || string(bytes.TrimSpace(got)) != want {
				match = false
			}
		}
		if match {
			return o
		}
	}
	return nil
}

// ---- stub subgraphs behind the real loader

type zzSubgraphs struct {
	world   *zzWorld
	schemas map[string]*ast.Document // url -> subgraph schema (federation upstream schema)
	log     []string
	invalid string
	fail    map[string]int // url -> failure mode (0 none)
	calls   map[string]int
	reqs    []zzReq
	faulted int // failing answers given
	cacheControl map[string]string // url -> Cache-Control header of its answers ("" = none)
}

type zzReq struct {
	url, query string
	reprs      []string
	vars       map[string]string // the request's variables, raw
}

var zzErrTransport = errors.New("connection refused")

const (
	zzFaultNone = iota
	zzFaultTransport
	zzFaultEmpty
	zzFaultNonJSON
	zzFaultErrorsNoData
	zzFaultDataNull
	zzFaultEntityCount // entity requests only: one entity too few
	zzFaultKinds
)

func (s *zzSubgraphs) Load(ctx context.Context, headers http.Header, input []byte) ([]byte, error) {
	// the real data source's preprocessing of the rendered input (removal of variables the client left undefined,
	// compaction); only the HTTP round trip below it is replaced
	input = (&Source{}).compactAndUnNullVariables(input)
	var req struct {
		URL  string `json:"url"`
		Body struct {
			Query     string                     `json:"query"`
			Variables map[string]json.RawMessage `json:"variables"`
		} `json:"body"`
	}
	if err := json.Unmarshal(input, &req); err != nil {
		s.invalid = "request input is not valid JSON: " + string(input)
		return []byte(`{"errors":[{"message":"bad input"}]}`), nil
	}
	s.log = append(s.log, req.URL+" "+req.Body.Query)
	if rc := httpclient.GetResponseContext(ctx); rc != nil {
		rc.StatusCode = 200
		h := http.Header{}
		if cc := s.cacheControl[req.URL]; cc != "" {
			h.Set("Cache-Control", cc)
		}
		rc.Response = &http.Response{StatusCode: 200, Header: h}
	}
	rq := zzReq{url: req.URL, query: req.Body.Query}
	if raw, ok := req.Body.Variables["representations"]; ok {
		var reprs []json.RawMessage
		_ = json.Unmarshal(raw, &reprs)
		for _, r := range reprs {
			rq.reprs = append(rq.reprs, string(r))
		}
	}
	rq.vars = map[string]string{}
	for k, v := range req.Body.Variables {
		rq.vars[k] = string(v)
	}
	s.reqs = append(s.reqs, rq)
	isEntity := strings.Contains(req.Body.Query, "_entities")
	switch s.fail[req.URL] {
	case zzFaultTransport:
		s.faulted++
		return nil, zzErrTransport
	case zzFaultEmpty:
		s.faulted++
		return []byte{}, nil
	case zzFaultNonJSON:
		s.faulted++
		return []byte("<html>502 Bad Gateway</html>"), nil
	case zzFaultErrorsNoData:
		s.faulted++
		return []byte(`{"errors":[{"message":"boom"}]}`), nil
	case zzFaultDataNull:
		s.faulted++
		return []byte(`{"errors":[{"message":"boom"}],"data":null}`), nil
	}
	if s.calls == nil {
		s.calls = map[string]int{}
	}
	s.calls[req.URL]++
	schema := s.schemas[req.URL]
	if schema == nil {
		s.invalid = "request to unknown subgraph " + req.URL
		return []byte(`{"errors":[{"message":"unknown subgraph"}]}`), nil
	}
	doc, report := astparser.ParseGraphqlDocumentString(req.Body.Query)
	if report.HasErrors() {
		s.invalid = "subgraph query does not parse: " + req.Body.Query
		return []byte(`{"errors":[{"message":"parse"}]}`), nil
	}
	var vr operationreport.Report
	astvalidation.DefaultOperationValidator().Validate(&doc, schema, &vr)
	if vr.HasErrors() && s.invalid == "" {
		s.invalid = "subgraph query is not valid for " + req.URL + ": " + req.Body.Query + " -- " + vr.Error()
	}
	vars := map[string]string{}
	for k, v := range req.Body.Variables {
		vars[k] = string(v)
	}
	ex := &zzExec{schema: schema, op: &doc, vars: vars, entities: s.world.lookup, computed: s.world.computed, argAware: s.world.argAware, subgraphSide: true}
	data := ex.run(s.world.query)
	if ex.missingRequired != "" && s.invalid == "" {
		s.invalid = "representation sent to " + req.URL + " lacks a @requires field: " + ex.missingRequired
	}
	if ex.unknown != "" && s.invalid == "" {
		s.invalid = "subgraph " + req.URL + " was asked for a field it does not own: " + ex.unknown
	}
	// (for a single representation an empty _entities list is, by design of the loader, the same as "entity not
	// found" - so the count fault needs at least two representations)
	if s.fail[req.URL] == zzFaultEntityCount && isEntity && len(rq.reprs) > 1 {
		// answer with one entity too few
		s.faulted++
		short := &zzExec{schema: schema, op: &doc, vars: map[string]string{}, entities: s.world.lookup, computed: s.world.computed, subgraphSide: true}
		for k, v := range vars {
			short.vars[k] = v
		}
		short.vars["representations"] = "[" + strings.Join(rq.reprs[:len(rq.reprs)-1], ",") + "]"
		data = short.run(s.world.query)
	}
	if ex.errors > 0 {
		return []byte(`{"errors":[{"message":"subgraph error"}],"data":` + data + `}`), nil
	}
	return []byte(`{"data":` + data + `}`), nil
}

func (s *zzSubgraphs) LoadWithFiles(ctx context.Context, headers http.Header, input []byte, files []*httpclient.FileUpload) ([]byte, error) {
	return s.Load(ctx, headers, input)
}

func zzReplaceSources(n *resolve.FetchTreeNode, ds resolve.DataSource) {
	if n == nil {
		return
	}
	if n.Item != nil && n.Item.Fetch != nil {
		switch f := n.Item.Fetch.(type) {
		case *resolve.SingleFetch:
			f.DataSource = ds
		case *resolve.EntityFetch:
			f.DataSource = ds
		case *resolve.BatchEntityFetch:
			f.DataSource = ds
		}
	}
	for _, c := range n.ChildNodes {
		zzReplaceSources(c, ds)
	}
}

// zzGateway executes a planned response through the real resolver with the stub subgraphs.
func zzGateway(resp *resolve.GraphQLResponse, variables []byte, subs *zzSubgraphs) (string, error) {
	zzReplaceSources(resp.Fetches, subs)
	r := resolve.New(context.Background(), resolve.ResolverOptions{MaxConcurrency: 4, PropagateSubgraphErrors: true})
	ctx := resolve.NewContext(context.Background())
	if len(variables) > 0 {
		ctx.Variables = astjson.MustParseBytes(variables)
	}
	var out bytes.Buffer
	_, err := r.ResolveGraphQLResponse(ctx, resp, nil, &out)
	return out.String(), err
}

// zzCanon re-renders a JSON value with object keys sorted: the property compares JSON values, in which member
// order is not significant.
func zzCanon(raw string) string {
	var v interface{}
	if err := json.Unmarshal([]byte(raw), &v); err != nil {
		return raw
	}
	b, err := json.Marshal(v)
	if err != nil {
		return raw
	}
	return string(b)
}

func zzDataOf(response string) (data string, hasErrors bool, ok bool) {
	var m map[string]json.RawMessage
	if err := json.Unmarshal([]byte(response), &m); err != nil {
		return "", false, false
	}
	_, hasErrors = m["errors"]
	return strings.TrimSpace(string(m["data"])), hasErrors, true
}
