package PKG

import (
	"bytes"
	"context"
	"errors"
	"strings"
	"time"

	"github.com/wundergraph/astjson"

	"github.com/wundergraph/graphql-go-tools/v2/pkg/caching"
	"github.com/wundergraph/graphql-go-tools/v2/pkg/engine/plan"
	"github.com/wundergraph/graphql-go-tools/v2/pkg/engine/resolve"
)

// zzCache: an in-memory caching.Cache with injectable faults, recording what it is asked to store.
type zzCache struct {
	items    map[string]caching.Item
	sets     [][]caching.Item
	failGet  bool
	failSet  bool
	gets     int
	hits     int
	cacheErr int
}

var zzErrCache = errors.New("cache unavailable")

func (c *zzCache) GetMany(ctx context.Context, keys []string) (map[string]caching.Item, error) {
	c.gets++
	if c.failGet {
		return nil, zzErrCache
	}
	out := map[string]caching.Item{}
	for _, k := range keys {
		if it, ok := c.items[k]; ok {
			out[k] = it
			c.hits++
		}
	}
	return out, nil
}

func (c *zzCache) SetMany(ctx context.Context, items []caching.Item) error {
	c.sets = append(c.sets, append([]caching.Item(nil), items...))
	if c.failSet {
		return zzErrCache
	}
	for _, it := range items {
		c.items[it.Key] = it
	}
	return nil
}

// zzWorld16: F1's data plus a product the products subgraph does not know (its entity answer is null) that comes first
// in a batch, and Review.text showing its arguments.
func zzWorld16() *zzWorld {
	w := zzWorld1(0)
	p3 := &zzO{typ: "Product", f: map[string]interface{}{"upc": zzS("p3"), "name": nil, "price": nil}}
	var u1 *zzO
	for _, o := range w.entities {
		if o.typ == "User" && o.f["id"] == zzS("1") {
			u1 = o
		}
	}
	r0 := &zzO{typ: "Review", f: map[string]interface{}{"id": zzS("r0"), "body": zzS("first"), "text": zzS("t0"), "author": u1, "product": p3}}
	u1.f["reviews"] = append([]interface{}{r0}, u1.f["reviews"].([]interface{})...)
	w.entities = append(w.entities, r0)
	// "me" is a user whose only review is about the unknown product: a later request asks for that entity alone
	u3 := &zzO{typ: "User", f: map[string]interface{}{"id": zzS("3"), "name": zzS("Cy"), "username": nil, "reviews": []interface{}{r0}}}
	w.entities = append(w.entities, u3)
	w.query.f["me"] = u3
	w.argAware = map[string]bool{"Review.text": true}
	return w
}

type zzReq16 struct{ op, vars string }

var zzC16Requests = []zzReq16{
	{`{ users { reviews { product { name } } } }`, ``},
	{`{ me { reviews { product { name } } } }`, ``},
	{`{ users { reviews { product { price } } } }`, ``},
	{`{ users { reviews { product { name price } } } }`, ``},
	{`query($f: String) { users { reviews { text(format: $f) } } }`, `{"f":"x"}`},
	{`query($f: String) { users { reviews { text(format: $f) } } }`, `{"f":"y"}`},
	{`{ topProducts { reviews { author { name } } } }`, ``},
	{`{ users { name reviews { author { name username } } } }`, ``},
}

var zzC16Headers = []string{"public, max-age=60", "public", "max-age=60", "private, max-age=60", "public, no-store", "public, s-maxage=0, max-age=60", ""}

// VerifC16Cache: H-C16d. A history of k requests (each solver-chosen from 8 operations with overlapping entity
// batches, partial hits, a null entity in first position, and argument variables that differ only in value) through
// one resolver with one entity cache; the Cache-Control header of every subgraph, and cache faults (GetMany / SetMany
// failing), are solver-chosen. Every response equals the response of the same request without a cache; an entity is
// stored only from an error-free answer whose header is public without a refusal directive, with a TTL no longer
// than the header allows; cache failures never fail a request.
func VerifC16Cache(k int) {
	verifExplore(0, 0)
	f := zzFed1()
	f.config.Fields = plan.FieldConfigurations{{TypeName: "Review", FieldName: "text", Arguments: plan.ArgumentsConfigurations{{Name: "format", SourceType: plan.FieldArgumentSource}}}}
	w := zzWorld16()
	hdr := zzC16Headers[nondetChoice(len(zzC16Headers))]
	verifObserveString("header", hdr)
	cache := &zzCache{items: map[string]caching.Item{}, failGet: nondetBool(), failSet: nondetBool()}
	r := resolve.New(context.Background(), resolve.ResolverOptions{MaxConcurrency: 4, PropagateSubgraphErrors: true})
	history := ""
	for step := 0; step < k; step++ {
		rq := zzC16Requests[nondetChoice(len(zzC16Requests))]
		history += rq.op + " " + rq.vars + " | "
		verifObserveString("input", history)
		// with cache
		pl, ok := zzPlanFed(f, rq.op, rq.vars)
		verifAssert(ok, "planning succeeds")
		subs := &zzSubgraphs{world: w, schemas: f.schemas, cacheControl: map[string]string{"http://users": hdr, "http://reviews": hdr, "http://products": hdr}}
		zzReplaceSources(pl.resp.Fetches, subs)
		ctx := resolve.NewContext(context.Background())
		if len(pl.variables) > 0 {
			ctx.Variables = astjson.MustParseBytes(pl.variables)
		}
		ctx.SetResponseCache(cache, 30*time.Second, func(err error) { cache.cacheErr++ })
		var out bytes.Buffer
		_, err := r.ResolveGraphQLResponse(ctx, pl.resp, nil, &out)
		verifAssert(err == nil, "a request never fails because of the cache")
		// without cache
		pl2, _ := zzPlanFed(f, rq.op, rq.vars)
		subs2 := &zzSubgraphs{world: w, schemas: f.schemas}
		want, err2 := zzGateway(pl2.resp, pl2.variables, subs2)
		verifAssert(err2 == nil, "the uncached request succeeds")
		got := out.String()
		if zzCanon(got) != zzCanon(want) {
			verifObserveString("with-cache", got)
			verifObserveString("without-cache", want)
			verifAssert(false, "every response equals the response the same request gets with no cache")
		}
		if len(subs.log) < len(subs2.log) {
			verifCover("a subgraph request was answered from the cache")
		}
	}
	// what was stored
	storable := strings.Contains(hdr, "public") && !strings.Contains(hdr, "no-store") && !strings.Contains(hdr, "private") && !strings.Contains(hdr, "no-cache")
	for _, set := range cache.sets {
		verifAssert(storable, "an entity is stored only from an answer that is explicitly public without a refusal directive")
		for _, it := range set {
			max := 30 * time.Second // the configured default
			if strings.Contains(hdr, "s-maxage=0") {
				max = 0
			} else if strings.Contains(hdr, "max-age=60") {
				max = 60 * time.Second
			}
			verifAssert(it.TTL > 0 && it.TTL <= max, "the stored lifetime is positive and no longer than the answer's s-maxage/max-age (else the default)")
			verifAssert(len(it.Value) > 0 && it.Value[0] == '{', "stored values are entity objects")
		}
	}
	if len(cache.sets) > 0 {
		verifCover("stored")
	} else {
		verifCover("nothing stored")
	}
}
