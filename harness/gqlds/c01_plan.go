package PKG

import (
	"github.com/wundergraph/graphql-go-tools/v2/pkg/astnormalization"
	"github.com/wundergraph/graphql-go-tools/v2/pkg/asttransform"
	"github.com/wundergraph/graphql-go-tools/v2/pkg/astvalidation"
	"github.com/wundergraph/graphql-go-tools/v2/pkg/engine/plan"
	"github.com/wundergraph/graphql-go-tools/v2/pkg/engine/postprocess"
	"github.com/wundergraph/graphql-go-tools/v2/pkg/engine/resolve"
	"github.com/wundergraph/graphql-go-tools/v2/pkg/internal/unsafeparser"
	"github.com/wundergraph/graphql-go-tools/v2/pkg/operationreport"
)

const zzSuper = `
type Query { me: User  users: [User!]! }
type User { id: ID! name: String! reviews: [Review!]! }
type Review { id: ID! body: String! author: User! }
`
const zzSubUsers = `
type Query { me: User users: [User!]! }
type User @key(fields: "id") { id: ID! name: String! }
`
const zzSubReviews = `
type User @key(fields: "id") { id: ID! reviews: [Review!]! }
type Review @key(fields: "id") { id: ID! body: String! author: User! }
`

func zzDS(id, url, sdl string, meta *plan.DataSourceMetadata) plan.DataSource {
	sc, err := NewSchemaConfiguration(sdl, &FederationConfiguration{Enabled: true, ServiceSDL: sdl})
	if err != nil {
		panic(err)
	}
	cfg, err := NewConfiguration(ConfigurationInput{Fetch: &FetchConfiguration{URL: url}, SchemaConfiguration: sc})
	if err != nil {
		panic(err)
	}
	ds, err := plan.NewDataSourceConfiguration[Configuration](id, &Factory[Configuration]{}, meta, cfg)
	if err != nil {
		panic(err)
	}
	return ds
}

func zzConfig() plan.Configuration {
	return plan.Configuration{
		DataSources: []plan.DataSource{
			zzDS("users", "http://users", zzSubUsers, &plan.DataSourceMetadata{
				RootNodes: []plan.TypeField{{TypeName: "Query", FieldNames: []string{"me", "users"}}, {TypeName: "User", FieldNames: []string{"id", "name"}}},
				FederationMetaData: plan.FederationMetaData{Keys: []plan.FederationFieldConfiguration{{TypeName: "User", SelectionSet: "id"}}},
			}),
			zzDS("reviews", "http://reviews", zzSubReviews, &plan.DataSourceMetadata{
				RootNodes: []plan.TypeField{{TypeName: "User", FieldNames: []string{"id", "reviews"}}, {TypeName: "Review", FieldNames: []string{"id", "body", "author"}}},
				FederationMetaData: plan.FederationMetaData{Keys: []plan.FederationFieldConfiguration{{TypeName: "User", SelectionSet: "id"}, {TypeName: "Review", SelectionSet: "id"}}},
			}),
		},
		DisableResolveFieldPositions: true,
	}
}

func zzPlan(operation string) (*resolve.GraphQLResponse, bool) {
	def := unsafeparser.ParseGraphqlDocumentString(zzSuper)
	op := unsafeparser.ParseGraphqlDocumentString(operation)
	if err := asttransform.MergeDefinitionWithBaseSchema(&def); err != nil {
		panic(err)
	}
	norm := astnormalization.NewWithOpts(astnormalization.WithExtractVariables(), astnormalization.WithInlineFragmentSpreads(), astnormalization.WithRemoveFragmentDefinitions(), astnormalization.WithRemoveUnusedVariables())
	var report operationreport.Report
	norm.NormalizeOperation(&op, &def, &report)
	valid := astvalidation.DefaultOperationValidator()
	valid.Validate(&op, &def, &report)
	if report.HasErrors() {
		verifObserveString("report", "validation: "+report.Error())
		return nil, false
	}
	p, err := plan.NewPlanner(zzConfig())
	if err != nil {
		panic(err)
	}
	pl := p.Plan(&op, &def, "", &report)
	if report.HasErrors() {
		verifObserveString("report", "plan: "+report.Error())
		return nil, false
	}
	postprocess.NewProcessor(postprocess.DisableResolveInputTemplates()).Process(pl)
	sp, ok := pl.(*plan.SynchronousResponsePlan)
	if !ok {
		return nil, false
	}
	return sp.Response, true
}

func zzInputs(n *resolve.FetchTreeNode, out *[]string) {
	if n == nil {
		return
	}
	if n.Item != nil && n.Item.Fetch != nil {
		if sf, ok := n.Item.Fetch.(*resolve.SingleFetch); ok {
			*out = append(*out, sf.Input)
		}
	}
	for _, c := range n.ChildNodes {
		zzInputs(c, out)
	}
}

func VerifC01Probe() {
	resp, ok := zzPlan(`{ me { id name reviews { body author { name } } } }`)
	verifAssert(ok, "plans")
	var ins []string
	zzInputs(resp.Fetches, &ins)
	for _, s := range ins {
		verifObserveString("input", s)
	}
	verifAssert(len(ins) == 3, "three fetches")
}
