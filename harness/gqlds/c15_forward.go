package PKG

import (
	"strings"

	"github.com/wundergraph/graphql-go-tools/v2/pkg/engine/plan"
)

// VerifC15Forward: H-C15c. A client variable used as a field argument reaches the subgraph that resolves the field
// with the same value; an omitted variable stays omitted (it must not become null) and an explicit null stays null -
// for an argument of a root fetch field reached through a single entity fetch, a batch entity fetch, and below a
// second entity jump. The state of each of two variables (absent / null / value) is solver-chosen.
func VerifC15Forward() {
	verifExplore(0, 0)
	f := zzFed1()
	f.config.Fields = plan.FieldConfigurations{{TypeName: "Review", FieldName: "text", Arguments: plan.ArgumentsConfigurations{
		{Name: "format", SourceType: plan.FieldArgumentSource}, {Name: "n", SourceType: plan.FieldArgumentSource}}}}
	ops := []string{
		`query($f: String, $n: Int) { me { reviews { text(format: $f, n: $n) } } }`,
		`query($f: String, $n: Int) { users { reviews { text(format: $f, n: $n) } } }`,
		`query($f: String, $n: Int) { topProducts { reviews { author { reviews { text(format: $f, n: $n) } } } } }`,
		`query($f: String, $n: Int) { users { id reviews { a: text(format: $f) b: text(n: $n) } } }`,
	}
	operation := ops[nondetChoice(len(ops))]
	fState, nState := nondetChoice(3), nondetChoice(3)
	vars := ""
	switch fState {
	case 1:
		vars = `"f":null`
	case 2:
		vars = `"f":"x\"y"`
	}
	switch nState {
	case 1:
		if vars != "" {
			vars += ","
		}
		vars += `"n":null`
	case 2:
		if vars != "" {
			vars += ","
		}
		vars += `"n":7`
	}
	variables := "{" + vars + "}"
	verifObserveString("input", operation+" | "+variables)
	w := zzWorld1(0)
	pl, ok := zzPlanFed(f, operation, variables)
	if !ok {
		verifObserveString("report", pl.report)
	}
	verifAssert(ok, "planning succeeds")
	subs := &zzSubgraphs{world: w, schemas: f.schemas}
	got, err := zzGateway(pl.resp, pl.variables, subs)
	verifAssert(err == nil, "resolving succeeds")
	verifObserveString("response", got)
	if subs.invalid != "" {
		verifObserveString("invalid", subs.invalid)
		verifAssert(false, "every subgraph request is valid")
	}
	for _, r := range subs.reqs {
		verifObserveString("req", r.url+" "+r.query)
	}
	sawText := false
	for _, r := range subs.reqs {
		if !strings.Contains(r.query, "text(") {
			continue
		}
		sawText = true
		verifObserveString("subgraph-request", r.url+" "+r.query)
		// which request variable carries $f / $n: the variable name used in the subgraph query for the argument
		check := func(arg string, state int, want string) {
			i := strings.Index(r.query, arg+": $")
			if i < 0 {
				return
			}
			name := r.query[i+len(arg)+3:]
			end := strings.IndexAny(name, " ,)")
			if end >= 0 {
				name = name[:end]
			}
			val, present := r.vars[name]
			verifObserveString("var", name+"="+val)
			switch state {
			case 0:
				verifAssert(!present, "a variable the client omitted stays omitted in the subgraph request")
			case 1:
				verifAssert(present && val == "null", "an explicit null stays null in the subgraph request")
			case 2:
				verifAssert(present && val == want, "a supplied value reaches the subgraph unchanged")
			}
		}
		check("format", fState, `"x\"y"`)
		check("n", nState, "7")
	}
	verifAssert(sawText, "the field's subgraph was asked")
	want, _ := zzMonolith(f, w, operation, variables)
	data, _, _ := zzDataOf(got)
	verifAssert(zzCanon(data) == zzCanon(want), "gateway data equals the monolith's data")
	verifCover("forwarded")
}
