package PKG

var zzF1Own = map[string]string{
	"Query.me": "http://users", "Query.users": "http://users", "User.name": "http://users", "User.username": "http://users",
	"User.reviews": "http://reviews", "Review.body": "http://reviews", "Review.text": "http://reviews", "Review.author": "http://reviews", "Review.product": "http://reviews", "Product.reviews": "http://reviews",
	"Query.topProducts": "http://products", "Product.name": "http://products", "Product.price": "http://products",
}

var zzF1URLs = []string{"http://users", "http://reviews", "http://products"}

// VerifC07Faults: H-C07a. One subgraph answers every request (or every entity request) with a solver-chosen fault;
// the response stays well-formed, equals the monolith's answer in which exactly the fields that needed a request to
// the failed subgraph are null (null-propagated per nullability), reports an error iff a failing request was sent,
// and every request sent under the fault was also sent (same subgraph, same query, subset of the representations)
// in the fault-free run of the same plan.
func VerifC07Faults(fed, depth, budget int) {
	verifExplore(0, 0)
	f := zzFed1()
	own, urls := zzF1Own, zzF1URLs
	g := &zzOpGen{budget: budget}
	var operation string
	var w *zzWorld
	if fed == 2 {
		f = zzFed2()
		own, urls = zzF2Own, zzF2URLs
		if depth == 0 {
			operation = zzF2Ops[nondetChoice(len(zzF2Ops))]
		} else {
			operation = g.query2(depth)
		}
		w = zzWorld2(0)
	} else {
		operation = g.query(depth)
		w = zzWorld1(0)
	}
	verifObserveString("input", operation)
	pl, ok := zzPlanFed(f, operation, "")
	verifAssert(ok, "planning a valid operation never fails")
	// fault-free run
	subs0 := &zzSubgraphs{world: w, schemas: f.schemas}
	got0, err := zzGateway(pl.resp, pl.variables, subs0)
	verifAssert(err == nil, "fault-free resolve succeeds")
	data0, hasErr0, _ := zzDataOf(got0)
	want0, _ := zzMonolith(f, w, operation, "")
	verifAssert(zzCanon(data0) == zzCanon(want0) && !hasErr0, "fault-free run equals the monolith")

	// faulted run of the same (cached) plan
	which := nondetChoice(len(urls))
	kind := 1 + nondetChoice(zzFaultKinds-1)
	verifObserveInt("fault-subgraph", which)
	verifObserveInt("fault-kind", kind)
	subs := &zzSubgraphs{world: w, schemas: f.schemas, fail: map[string]int{urls[which]: kind}}
	got, err := zzGateway(pl.resp, pl.variables, subs)
	verifAssert(err == nil, "resolve returns a response under faults")
	verifObserveString("response", got)
	data, hasErr, okj := zzDataOf(got)
	verifAssert(okj, "response under faults is well-formed JSON")

	// no fabricated requests
	for _, r := range subs.reqs {
		found := false
		for _, r0 := range subs0.reqs {
			if r0.url != r.url || r0.query != r.query {
				continue
			}
			subset := true
			for _, x := range r.reprs {
				in := false
				for _, y := range r0.reprs {
					if x == y {
						in = true
					}
				}
				if !in {
					subset = false
				}
			}
			if subset {
				found = true
			}
		}
		if !found {
			verifObserveString("fabricated", r.url+" "+r.query)
			verifAssert(false, "every request sent under a fault was also sent fault-free (same query, subset of entities)")
		}
	}
	// expected data: the monolith with the failed subgraph's requests failing
	def, op := zzParseBoth(f, operation)
	ex := &zzExec{schema: def, op: op, vars: map[string]string{}, own: own, faultSub: urls[which], faultRootToo: kind != zzFaultEntityCount, computed: w.computed}
	want := ex.run(w.query)
	verifObserveString("expected", want)
	if subs.faulted > 0 {
		verifCover("a failing request was sent")
		verifAssert(hasErr, "at least one error is reported when a request failed")
	} else {
		verifCover("the faulted subgraph was not needed")
		verifAssert(!hasErr && data == data0, "a fault in an unused subgraph changes nothing")
	}
	if subs.faulted == 0 {
		return // nothing failed (e.g. the count fault needs a request with two or more representations)
	}
	if zzCanon(data) != zzCanon(want) {
		// the planner may serve several fields of one subgraph at one object with a single request; when that request is
		// skipped because a @requires input failed, its other fields are affected parts too
		ex2 := &zzExec{schema: def, op: op, vars: map[string]string{}, own: own, faultSub: urls[which], faultRootToo: kind != zzFaultEntityCount, computed: w.computed, coarse: true}
		want2 := ex2.run(w.query)
		verifObserveString("expected-coarse", want2)
		verifAssert(zzCanon(data) == zzCanon(want2), "data under faults: unaffected parts identical, affected parts null-propagated")
	}
}
