package PKG

import (
	"github.com/wundergraph/graphql-go-tools/v2/pkg/ast"
	"github.com/wundergraph/graphql-go-tools/v2/pkg/engine/plan"
)

// ---- federation F2: abstract types, lists of entities under an interface, a custom scalar, a @requires chain
// over three subgraphs, repeated entity references

const zzF2Super = `
scalar DateTime
type Query { me: User users: [User!]! catalog: Catalog nodes: [Node!]! feed: [Review!]! }
interface Node { id: ID! owner: User }
type A implements Node { id: ID! owner: User }
type B implements Node { id: ID! owner: User }
interface Catalog { products: [Product!]! }
type Shop implements Catalog { products: [Product!]! }
type User { id: ID! name: String! zip: String since: DateTime! estimate: String label: String reviews: [Review!]! }
type Review { id: ID! body: String! author: User! }
type Product { upc: String! name: String }
`
const zzF2Accounts = `
type Query { me: User users: [User!]! }
type User @key(fields: "id") { id: ID! name: String! zip: String }
`
const zzF2Content = `
type Query { catalog: Catalog nodes: [Node!]! feed: [Review!]! }
interface Node { id: ID! owner: User }
type A implements Node { id: ID! owner: User }
type B implements Node { id: ID! owner: User }
interface Catalog { products: [Product!]! }
type Shop implements Catalog { products: [Product!]! }
type Product @key(fields: "upc") { upc: String! }
type User @key(fields: "id") { id: ID! reviews: [Review!]! }
type Review { id: ID! body: String! author: User! }
`
const zzF2Products = `
type Product @key(fields: "upc") { upc: String! name: String }
`
const zzF2Shipping = `
scalar DateTime
type User @key(fields: "id") { id: ID! since: DateTime! zip: String @external estimate: String @requires(fields: "zip") }
`
const zzF2Labels = `
type User @key(fields: "id") { id: ID! estimate: String @external label: String @requires(fields: "estimate") }
`

func zzFed2() *zzFed {
	f := &zzFed{super: zzF2Super, schemas: map[string]*ast.Document{}}
	userKey := plan.FederationMetaData{Keys: []plan.FederationFieldConfiguration{zzKey("User", "id")}}
	f.config = plan.Configuration{
		DataSources: []plan.DataSource{
			zzFedDS(f, "accounts", "http://accounts", zzF2Accounts, &plan.DataSourceMetadata{
				RootNodes:          []plan.TypeField{{TypeName: "Query", FieldNames: []string{"me", "users"}}, {TypeName: "User", FieldNames: []string{"id", "name", "zip"}}},
				FederationMetaData: userKey,
			}),
			zzFedDS(f, "content", "http://content", zzF2Content, &plan.DataSourceMetadata{
				RootNodes: []plan.TypeField{{TypeName: "Query", FieldNames: []string{"catalog", "nodes", "feed"}}, {TypeName: "User", FieldNames: []string{"id", "reviews"}}, {TypeName: "Product", FieldNames: []string{"upc"}}},
				ChildNodes: []plan.TypeField{{TypeName: "Node", FieldNames: []string{"id", "owner"}}, {TypeName: "A", FieldNames: []string{"id", "owner"}}, {TypeName: "B", FieldNames: []string{"id", "owner"}},
					{TypeName: "Catalog", FieldNames: []string{"products"}}, {TypeName: "Shop", FieldNames: []string{"products"}}, {TypeName: "Review", FieldNames: []string{"id", "body", "author"}}},
				FederationMetaData: plan.FederationMetaData{Keys: []plan.FederationFieldConfiguration{zzKey("User", "id"), zzKey("Product", "upc")}},
			}),
			zzFedDS(f, "products", "http://products", zzF2Products, &plan.DataSourceMetadata{
				RootNodes:          []plan.TypeField{{TypeName: "Product", FieldNames: []string{"upc", "name"}}},
				FederationMetaData: plan.FederationMetaData{Keys: []plan.FederationFieldConfiguration{zzKey("Product", "upc")}},
			}),
			zzFedDS(f, "shipping", "http://shipping", zzF2Shipping, &plan.DataSourceMetadata{
				RootNodes: []plan.TypeField{{TypeName: "User", FieldNames: []string{"id", "since", "estimate"}, ExternalFieldNames: []string{"zip"}}},
				FederationMetaData: plan.FederationMetaData{Keys: []plan.FederationFieldConfiguration{zzKey("User", "id")},
					Requires: []plan.FederationFieldConfiguration{{TypeName: "User", FieldName: "estimate", SelectionSet: "zip"}}},
			}),
			zzFedDS(f, "labels", "http://labels", zzF2Labels, &plan.DataSourceMetadata{
				RootNodes: []plan.TypeField{{TypeName: "User", FieldNames: []string{"id", "label"}, ExternalFieldNames: []string{"estimate"}}},
				FederationMetaData: plan.FederationMetaData{Keys: []plan.FederationFieldConfiguration{zzKey("User", "id")},
					Requires: []plan.FederationFieldConfiguration{{TypeName: "User", FieldName: "label", SelectionSet: "estimate"}}},
			}),
		},
		DisableResolveFieldPositions: true,
	}
	return f
}

var zzF2Own = map[string]string{
	"Query.me": "http://accounts", "Query.users": "http://accounts", "User.name": "http://accounts", "User.zip": "http://accounts",
	"Query.catalog": "http://content", "Query.nodes": "http://content", "Query.feed": "http://content", "A.owner": "http://content", "B.owner": "http://content",
	"Shop.products": "http://content", "User.reviews": "http://content", "Review.body": "http://content", "Review.author": "http://content", "Review.id": "http://content", "A.id": "http://content", "B.id": "http://content",
	"Product.name": "http://products", "User.since": "http://shipping", "User.estimate": "http://shipping", "User.label": "http://labels",
}

var zzF2URLs = []string{"http://accounts", "http://content", "http://products", "http://shipping", "http://labels"}

func zzUnq(raw string) string {
	if len(raw) >= 2 && raw[0] == '"' {
		return raw[1 : len(raw)-1]
	}
	return raw
}

func zzWorld2(deviation int) *zzWorld {
	mkUser := func(id, name string, zip interface{}) *zzO {
		return &zzO{typ: "User", f: map[string]interface{}{"id": zzS(id), "name": zzS(name), "zip": zip, "since": zzS("2020-0" + id)}}
	}
	u1 := mkUser("1", "Ann", zzS("10115"))
	u2 := mkUser("2", "Bob", nil)
	u3 := mkUser("3", "Cy", zzS("20095"))
	p1 := &zzO{typ: "Product", f: map[string]interface{}{"upc": zzS("p1"), "name": zzS("Table")}}
	p2 := &zzO{typ: "Product", f: map[string]interface{}{"upc": zzS("p2"), "name": nil}}
	mkReview := func(id string, a *zzO) *zzO {
		return &zzO{typ: "Review", f: map[string]interface{}{"id": zzS(id), "body": zzS("body-" + id), "author": a}}
	}
	// authors in the order u1,u1,u2,u3,u2: repeated representations within one batch
	r1, r2, r3, r4, r5 := mkReview("r1", u1), mkReview("r2", u1), mkReview("r3", u2), mkReview("r4", u3), mkReview("r5", u2)
	u1.f["reviews"] = []interface{}{r1, r2}
	u2.f["reviews"] = []interface{}{r3, r5}
	u3.f["reviews"] = []interface{}{}
	a1 := &zzO{typ: "A", f: map[string]interface{}{"id": zzS("a1"), "owner": u1}}
	b1 := &zzO{typ: "B", f: map[string]interface{}{"id": zzS("b1"), "owner": u2}}
	b2 := &zzO{typ: "B", f: map[string]interface{}{"id": zzS("b2"), "owner": nil}}
	shop := &zzO{typ: "Shop", f: map[string]interface{}{"products": []interface{}{p1, p2}}}
	q := &zzO{typ: "Query", f: map[string]interface{}{"me": u1, "users": []interface{}{u1, u2, u3}, "catalog": shop, "nodes": []interface{}{a1, b1, b2}, "feed": []interface{}{r1, r2, r3, r4, r5}}}
	switch deviation {
	case 1:
		q.f["me"] = nil
	case 2:
		u2.f["name"] = nil // non-null violated in accounts
	case 3:
		q.f["catalog"] = nil
	case 4:
		u3.f["since"] = nil // non-null custom scalar violated in shipping
	case 5:
		r3.f["body"] = nil
	}
	w := &zzWorld{query: q, entities: []*zzO{u1, u2, u3, p1, p2}, keys: map[string][]string{"User": {"id"}, "Product": {"upc"}}}
	w.computed = map[string]zzComputed{
		"User.estimate": {requires: []string{"zip"}, fn: func(v []string) string {
			if v[0] == "null" {
				return "null"
			}
			return zzS("est:" + zzUnq(v[0]))
		}},
		"User.label": {requires: []string{"estimate"}, fn: func(v []string) string {
			if v[0] == "null" {
				return "null"
			}
			return zzS("label:" + zzUnq(v[0]))
		}},
	}
	return w
}

// ---- operation generator for F2

func (g *zzOpGen) user2(depth int) string {
	s := g.fields([]string{"id", "name", "zip", "since", "estimate", "label"})
	if depth > 0 && g.opt() {
		s += " reviews {" + g.review2(depth-1) + " }"
	}
	if s == "" {
		s = " name"
	}
	return s
}

func (g *zzOpGen) review2(depth int) string {
	s := g.fields([]string{"id", "body"})
	if depth > 0 && g.opt() {
		s += " author {" + g.user2(depth-1) + " }"
	}
	if s == "" {
		s = " body"
	}
	return s
}

func (g *zzOpGen) node2(depth int) string {
	s := g.fields([]string{"id", "__typename"})
	if depth > 0 && g.opt() {
		s += " owner {" + g.user2(depth-1) + " }"
	}
	if depth > 0 && g.opt() {
		s += " ... on A { owner {" + g.user2(depth-1) + " } }"
	}
	if depth > 0 && g.opt() {
		s += " ... on B { id owner {" + g.user2(depth-1) + " } }"
	}
	if s == "" {
		s = " id"
	}
	return s
}

func (g *zzOpGen) catalog2() string {
	s := ""
	if g.opt() {
		s += " products { upc" + g.fields([]string{"name"}) + " }"
	}
	if g.opt() {
		s += " ... on Shop { products {" + g.fields([]string{"upc"}) + " name } }"
	}
	if s == "" {
		s = " products { name }"
	}
	return s
}

func (g *zzOpGen) query2(depth int) string {
	s := ""
	switch nondetChoice(5) {
	case 0:
		s = " me {" + g.user2(depth) + " }"
	case 1:
		s = " users {" + g.user2(depth) + " }"
	case 2:
		s = " nodes {" + g.node2(depth) + " }"
	case 3:
		s = " catalog {" + g.catalog2() + " }"
	case 4:
		s = " feed {" + g.review2(depth) + " }"
	}
	return "{" + s + " }"
}

// VerifC01Fed2: H-C01b. As H-C01a on federation F2.
func VerifC01Fed2(depth, budget, maxDev int) {
	verifExplore(0, 0)
	f := zzFed2()
	g := &zzOpGen{budget: budget}
	operation := g.query2(depth)
	verifObserveString("input", operation)
	dev := 0
	if maxDev > 0 {
		dev = nondetChoice(maxDev + 1)
	}
	verifObserveInt("deviation", dev)
	w := zzWorld2(dev)
	pl, ok := zzPlanFed(f, operation, "")
	if !ok {
		verifObserveString("report", pl.report)
		verifAssert(false, "planning a valid operation never fails")
	}
	subs := &zzSubgraphs{world: w, schemas: f.schemas}
	got, err := zzGateway(pl.resp, pl.variables, subs)
	verifAssert(err == nil, "resolving succeeds")
	verifObserveString("response", got)
	for _, l := range subs.log {
		verifObserveString("subgraph-request", l)
	}
	if subs.invalid != "" {
		verifObserveString("invalid", subs.invalid)
		verifAssert(false, "every subgraph request is a valid operation of that subgraph's own schema (with the @requires fields it needs)")
	}
	want, wantErr := zzMonolith(f, w, operation, "")
	verifObserveString("monolith", want)
	data, hasErr, okj := zzDataOf(got)
	verifAssert(okj, "response is well-formed JSON")
	verifAssert(zzCanon(data) == zzCanon(want), "gateway data equals the monolith's data")
	verifAssert(hasErr == wantErr, "the gateway reports errors exactly when the monolith does")
	if wantErr {
		verifCover("with errors")
	} else {
		verifCover("clean")
	}
}

var zzF2Ops = []string{
	`{ me { label } }`,
	`{ nodes { owner { name } ... on A { owner { name } } } }`,
	`{ catalog { products { name } } }`,
	`{ feed { author { name } } }`,
	`{ users { since estimate } }`,
	`{ nodes { ... on B { owner { label since } } id } }`,
	`{ feed { author { label reviews { author { zip } } } } }`,
	`{ catalog { ... on Shop { products { upc name } } products { name } } }`,
	`{ nodes { __typename ... on A { id } owner { id } } }`,
}

// VerifC01Fed2Ops: H-C01c. Fixed operations on F2 that each need one planner/loader mechanism (requires chain, entity
// fetch below an interface field with and without type fragment, list of entities under an interface, repeated
// representations in one batch, custom scalar, nested jumps), every data deviation.
func VerifC01Fed2Ops(maxDev int) {
	verifExplore(0, 0)
	f := zzFed2()
	operation := zzF2Ops[nondetChoice(len(zzF2Ops))]
	verifObserveString("input", operation)
	dev := 0
	if maxDev > 0 {
		dev = nondetChoice(maxDev + 1)
	}
	verifObserveInt("deviation", dev)
	w := zzWorld2(dev)
	pl, ok := zzPlanFed(f, operation, "")
	if !ok {
		verifObserveString("report", pl.report)
		verifAssert(false, "planning a valid operation never fails")
	}
	subs := &zzSubgraphs{world: w, schemas: f.schemas}
	got, err := zzGateway(pl.resp, pl.variables, subs)
	verifAssert(err == nil, "resolving succeeds")
	verifObserveString("response", got)
	for _, l := range subs.log {
		verifObserveString("subgraph-request", l)
	}
	if subs.invalid != "" {
		verifObserveString("invalid", subs.invalid)
		verifAssert(false, "every subgraph request is a valid operation of that subgraph's own schema (with the @requires fields it needs)")
	}
	want, wantErr := zzMonolith(f, w, operation, "")
	verifObserveString("monolith", want)
	data, hasErr, okj := zzDataOf(got)
	verifAssert(okj, "response is well-formed JSON")
	verifAssert(zzCanon(data) == zzCanon(want), "gateway data equals the monolith's data")
	verifAssert(hasErr == wantErr, "the gateway reports errors exactly when the monolith does")
	verifCover("compared")
}
