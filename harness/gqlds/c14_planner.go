package PKG

import (
	"bytes"
	"context"
	"encoding/json"
	"io"
	"strings"

	"github.com/wundergraph/astjson"

	"github.com/wundergraph/graphql-go-tools/v2/pkg/engine/plan"
	"github.com/wundergraph/graphql-go-tools/v2/pkg/engine/resolve"
)

// ---- H-C14d: authorization end to end, starting from the planner configuration (not from a hand-built plan)

type zzDenyAll struct{ denied map[string]bool }

func (a *zzDenyAll) AuthorizePreFetch(ctx *resolve.Context, dataSourceID string, input json.RawMessage, c resolve.GraphCoordinate) (*resolve.AuthorizationDeny, error) {
	return a.decide(c)
}
func (a *zzDenyAll) AuthorizeObjectField(ctx *resolve.Context, dataSourceID string, object json.RawMessage, c resolve.GraphCoordinate) (*resolve.AuthorizationDeny, error) {
	return a.decide(c)
}
func (a *zzDenyAll) decide(c resolve.GraphCoordinate) (*resolve.AuthorizationDeny, error) {
	if a.denied[c.TypeName+"."+c.FieldName] {
		return &resolve.AuthorizationDeny{Reason: "r"}, nil
	}
	return nil, nil
}
func (a *zzDenyAll) HasResponseExtensionData(ctx *resolve.Context) bool            { return false }
func (a *zzDenyAll) RenderResponseExtension(ctx *resolve.Context, out io.Writer) error { return nil }
func (a *zzDenyAll) AuthorizeFields(ctx *resolve.Context, cs []resolve.GraphCoordinate) ([]resolve.AuthorizationDecision, error) {
	out := make([]resolve.AuthorizationDecision, len(cs))
	for i, c := range cs {
		out[i] = resolve.AuthorizationDecision{Allowed: !a.denied[c.TypeName+"."+c.FieldName], Reason: "r"}
	}
	return out, nil
}

var zzC14Ops = []string{
	`{ me { id username } }`,
	`{ me { id u: username } }`,
	`{ users { name handle: username reviews { body } } }`,
	`{ me { reviews { author { x: username y: name } } } }`,
	`{ topProducts { price cost: price name } }`,
	`{ a: me { username } b: me { n: username } }`,
	`{ me { ... on User { z: username } id } }`,
}

// VerifC14Planner: H-C14d. The planner configuration protects User.username and Product.price; the decision per
// coordinate, the authorizer mode and the operation (with aliases, fragments, duplicates) are solver-chosen. Planned
// and executed through the real pipeline on federation F1: sentinel values of denied fields never reach the client
// and the data equals the monolith's data with the denied fields nulled.
func VerifC14Planner() {
	verifExplore(0, 0)
	f := zzFed1()
	f.config.Fields = plan.FieldConfigurations{
		{TypeName: "User", FieldName: "username", HasAuthorizationRule: true},
		{TypeName: "Product", FieldName: "price", HasAuthorizationRule: true},
	}
	operation := zzC14Ops[nondetChoice(len(zzC14Ops))]
	verifObserveString("input", operation)
	auth := &zzDenyAll{denied: map[string]bool{"User.username": nondetBool(), "Product.price": nondetBool()}}
	preFetch := nondetBool()
	w := zzWorld1(0)
	pl, ok := zzPlanFed(f, operation, "")
	verifAssert(ok, "planning succeeds")
	subs := &zzSubgraphs{world: w, schemas: f.schemas}
	zzReplaceSources(pl.resp.Fetches, subs)
	r := resolve.New(context.Background(), resolve.ResolverOptions{MaxConcurrency: 4, PropagateSubgraphErrors: true})
	ctx := resolve.NewContext(context.Background())
	if len(pl.variables) > 0 {
		ctx.Variables = astjson.MustParseBytes(pl.variables)
	}
	if preFetch {
		ctx.SetPreFetchFieldAuthorizer(auth)
	} else {
		ctx.SetAuthorizer(auth)
	}
	var out bytes.Buffer
	_, err := r.ResolveGraphQLResponse(ctx, pl.resp, nil, &out)
	verifAssert(err == nil, "resolving succeeds")
	got := out.String()
	verifObserveString("response", got)
	if auth.denied["User.username"] {
		verifAssert(!strings.Contains(got, `"ann"`), "a denied field's value never reaches the client (User.username)")
	}
	if auth.denied["Product.price"] {
		verifAssert(!strings.Contains(got, ":10"), "a denied field's value never reaches the client (Product.price)")
	}
	// expected: the monolith on data in which the denied fields are null
	w2 := zzWorld1(0)
	for _, o := range w2.entities {
		if o.typ == "User" && auth.denied["User.username"] {
			o.f["username"] = nil
		}
		if o.typ == "Product" && auth.denied["Product.price"] {
			o.f["price"] = nil
		}
	}
	want, _ := zzMonolith(f, w2, operation, "")
	data, hasErr, okj := zzDataOf(got)
	verifAssert(okj, "response is well-formed JSON")
	if zzCanon(data) != zzCanon(want) {
		verifObserveString("expected", want)
		verifAssert(false, "data equals the data with denied fields nulled")
	}
	selectsUsername := strings.Contains(operation, "username")
	selectsPrice := strings.Contains(operation, "price")
	if (auth.denied["User.username"] && selectsUsername) || (auth.denied["Product.price"] && selectsPrice) {
		verifCover("a selected field is denied")
		verifAssert(hasErr && strings.Contains(got, "UNAUTHORIZED_FIELD_OR_TYPE"), "the denial of a selected field is reported")
	} else {
		verifAssert(!hasErr, "no error without a denial")
	}
}
