package PKG

import (
	"bytes"
	"strings"

	"github.com/wundergraph/graphql-go-tools/v2/pkg/ast"
	"github.com/wundergraph/graphql-go-tools/v2/pkg/astnormalization"
	"github.com/wundergraph/graphql-go-tools/v2/pkg/astparser"
	"github.com/wundergraph/graphql-go-tools/v2/pkg/operationreport"
)

const zzSchema = `
schema { query: Query }
scalar Int scalar Float scalar String scalar Boolean scalar ID scalar JSON scalar Upload
directive @oneOf on INPUT_OBJECT
directive @inaccessible on ENUM_VALUE | FIELD_DEFINITION
type Query { f: Int }
enum E { X Y Z @inaccessible }
input I { a: Int! b: [Int!] c: I d: E = X e: String = "s" f: [[Int]] g: ID h: Float i: Boolean }
input R { r: Int! = 7 s: [String!]! = [] }
input O @oneOf { a: Int b: String }
`

// ---- type model of the oracle
type zzT struct {
	nonNull bool
	list    *zzT
	named   string
}

func zzParseType(s string) *zzT {
	if strings.HasSuffix(s, "!") {
		t := zzParseType(s[:len(s)-1])
		c := *t
		c.nonNull = true
		return &c
	}
	if strings.HasPrefix(s, "[") {
		return &zzT{list: zzParseType(s[1 : len(s)-1])}
	}
	return &zzT{named: s}
}

type zzField struct {
	name       string
	typ        string
	hasDefault bool
}

var zzInputs = map[string][]zzField{
	"I": {{"a", "Int!", false}, {"b", "[Int!]", false}, {"c", "I", false}, {"d", "E", true}, {"e", "String", true}, {"f", "[[Int]]", false}, {"g", "ID", false}, {"h", "Float", false}, {"i", "Boolean", false}},
	"R": {{"r", "Int!", true}, {"s", "[String!]!", true}},
	"O": {{"a", "Int", false}, {"b", "String", false}},
}

// ---- JSON value model
const (
	zzNull = iota
	zzStr
	zzInt     // integral number inside int32
	zzBigInt  // integral number outside int32
	zzFrac    // fractional number
	zzHuge    // integral number far outside int32/int64 (1e100)
	zzBool
	zzArr
	zzObj
)

type zzJ struct {
	kind int
	text []byte // rendered scalar
	enum byte   // for enum-ish strings: the (symbolic) letter
	arr  []*zzJ
	keys []string
	vals []*zzJ
}

func (j *zzJ) render(out *bytes.Buffer) {
	switch j.kind {
	case zzNull:
		out.WriteString("null")
	case zzStr, zzInt, zzBigInt, zzFrac, zzHuge, zzBool:
		out.Write(j.text)
	case zzArr:
		out.WriteByte('[')
		for i, e := range j.arr {
			if i > 0 {
				out.WriteByte(',')
			}
			e.render(out)
		}
		out.WriteByte(']')
	case zzObj:
		out.WriteByte('{')
		for i, k := range j.keys {
			if i > 0 {
				out.WriteByte(',')
			}
			out.WriteString("\"" + k + "\":")
			j.vals[i].render(out)
		}
		out.WriteByte('}')
	}
}

type zzGenJ struct {
	deviations int // remaining budget of off-type choices
	what       string
}

func (g *zzGenJ) wrong(label string) bool {
	if g.deviations <= 0 {
		return false
	}
	g.deviations--
	g.what += label + ";"
	return true
}

func zzScalar(kind int) *zzJ {
	switch kind {
	case zzStr:
		return &zzJ{kind: zzStr, text: []byte(`"Q9Z"`)}
	case zzInt:
		return &zzJ{kind: zzInt, text: []byte("90125")}
	case zzBigInt:
		return &zzJ{kind: zzBigInt, text: []byte("90125000000")}
	case zzFrac:
		return &zzJ{kind: zzFrac, text: []byte("90125.5")}
	case zzHuge:
		return &zzJ{kind: zzHuge, text: []byte("90125e100")}
	case zzBool:
		return &zzJ{kind: zzBool, text: []byte("true")}
	}
	return &zzJ{kind: zzNull}
}

// gen produces a JSON value for a position of type t; nil means absent (only where allowed).
func (g *zzGenJ) gen(t *zzT, mayBeAbsent bool, depth int) *zzJ {
	// deviations: absent / null / a wrong kind (only while the deviation budget lasts)
	opts := []int{0}
	if g.deviations > 0 {
		opts = append(opts, 2, 3, 4, 5, 6, 7, 8, 9, 10, 11)
		if mayBeAbsent {
			opts = append(opts, 1)
		}
	}
	switch opts[nondetChoice(len(opts))] {
	case 1:
		g.wrong("absent")
		return nil
	case 2:
		g.wrong("null")
		return &zzJ{kind: zzNull}
	case 3:
		g.wrong("str")
		return zzScalar(zzStr)
	case 4:
		g.wrong("int")
		return zzScalar(zzInt)
	case 5:
		g.wrong("frac")
		return zzScalar(zzFrac)
	case 6:
		g.wrong("bool")
		return zzScalar(zzBool)
	case 7:
		g.wrong("emptyarr")
		return &zzJ{kind: zzArr}
	case 8:
		g.wrong("emptyobj")
		return &zzJ{kind: zzObj}
	case 9:
		g.wrong("huge")
		return zzScalar(zzHuge)
	case 10:
		g.wrong("bigint")
		return zzScalar(zzBigInt)
	case 11:
		g.wrong("minint")
		return &zzJ{kind: zzInt, text: []byte("-2147483648")}
	}
	if t.list != nil {
		// canonical list: one element; as a (counted) variation two elements, or a single value
		// standing for a list of one (input coercion of lists)
		n := 1
		if g.deviations > 0 {
			n = 1 + nondetChoice(3)
			if n > 1 {
				g.wrong("listshape")
			}
		}
		if n == 3 {
			g.what += "single-for-list;"
			return g.gen(t.list, false, depth)
		}
		j := &zzJ{kind: zzArr}
		for i := 0; i < n; i++ {
			j.arr = append(j.arr, g.gen(t.list, false, depth))
		}
		return j
	}
	switch t.named {
	case "Int":
		return zzScalar(zzInt)
	case "Float":
		return zzScalar(zzFrac)
	case "String":
		return zzScalar(zzStr)
	case "Boolean":
		return zzScalar(zzBool)
	case "ID":
		return zzScalar(zzStr)
	case "JSON", "Upload":
		return &zzJ{kind: zzObj, keys: []string{"k"}, vals: []*zzJ{zzScalar(zzInt)}}
	case "E":
		// the enum letter is solver-decided only when a deviation is still available
		if g.deviations > 0 {
			b := nondetByte()
			verifAssume(b == 'X' || b == 'Y' || b == 'Z' || b == 'W')
			if b != 'X' {
				g.wrong("enum-letter")
			}
			return &zzJ{kind: zzStr, text: []byte{'"', b, '"'}, enum: b}
		}
		return &zzJ{kind: zzStr, text: []byte(`"X"`), enum: 'X'}
	}
	// input objects
	fields := zzInputs[t.named]
	j := &zzJ{kind: zzObj}
	for _, f := range fields {
		if depth <= 0 && f.typ == t.named {
			continue // recursive field: absent at the depth bound
		}
		ft := zzParseType(f.typ)
		// to keep the space small most optional fields of a conforming object are simply absent
		if !ft.nonNull && f.name != "b" && f.name != "c" && f.name != "d" && g.deviations == 0 {
			continue
		}
		v := g.gen(ft, true, depth-1)
		if v != nil {
			j.keys = append(j.keys, f.name)
			j.vals = append(j.vals, v)
		}
	}
	if g.deviations > 0 && nondetBool() && g.wrong("unknown-field") {
		j.keys = append(j.keys, "zz")
		j.vals = append(j.vals, zzScalar(zzInt))
	}
	return j
}

// ---- oracle: the spec's CoerceVariableValues / input coercion

func zzCoercible(t *zzT, j *zzJ, present bool, hasDefault bool) (bool, string) {
	if !present {
		if hasDefault || !t.nonNull {
			return true, ""
		}
		return false, "required value absent"
	}
	if j.kind == zzNull {
		if t.nonNull {
			return false, "null for non-null type"
		}
		return true, ""
	}
	if t.list != nil {
		if j.kind == zzArr {
			for _, e := range j.arr {
				if ok, why := zzCoercible(t.list, e, true, false); !ok {
					return false, "list item: " + why
				}
			}
			return true, ""
		}
		// a single value is coerced to a list of one
		if ok, why := zzCoercible(t.list, j, true, false); !ok {
			return false, "single value for list: " + why
		}
		return true, ""
	}
	switch t.named {
	case "Int":
		if j.kind == zzInt {
			return true, ""
		}
		if j.kind == zzBigInt {
			return false, "Int: integer outside int32"
		}
		if j.kind == zzFrac {
			return false, "Int: fractional number"
		}
		if j.kind == zzHuge {
			return false, "Int: integer outside int32"
		}
		return false, "Int: not a number"
	case "Float":
		if j.kind == zzInt || j.kind == zzBigInt || j.kind == zzFrac || j.kind == zzHuge {
			return true, ""
		}
		return false, "Float: not a number"
	case "String":
		if j.kind == zzStr {
			return true, ""
		}
		return false, "String: not a string"
	case "Boolean":
		if j.kind == zzBool {
			return true, ""
		}
		return false, "Boolean: not a boolean"
	case "ID":
		if j.kind == zzStr || j.kind == zzInt || j.kind == zzBigInt || j.kind == zzHuge {
			return true, ""
		}
		if j.kind == zzFrac {
			return false, "ID: fractional number"
		}
		return false, "ID: neither string nor integer"
	case "JSON", "Upload":
		return true, ""
	case "E":
		if j.kind != zzStr {
			return false, "Enum: not a string"
		}
		if j.enum == 'X' || j.enum == 'Y' {
			return true, ""
		}
		if j.enum == 'Z' {
			return false, "Enum: inaccessible value"
		}
		return false, "Enum: unknown value"
	}
	fields, isInput := zzInputs[t.named]
	if !isInput {
		return true, ""
	}
	if j.kind != zzObj {
		return false, "input object: not an object"
	}
	for _, k := range j.keys {
		known := false
		for _, f := range fields {
			if f.name == k {
				known = true
			}
		}
		if !known {
			return false, "input object: unknown field"
		}
	}
	for _, f := range fields {
		var fv *zzJ
		for i, k := range j.keys {
			if k == f.name {
				fv = j.vals[i]
			}
		}
		if ok, why := zzCoercible(zzParseType(f.typ), fv, fv != nil, f.hasDefault); !ok {
			return false, "field " + f.name + ": " + why
		}
	}
	if t.named == "O" {
		if len(j.keys) != 1 {
			return false, "oneOf: not exactly one field"
		}
		if j.vals[0].kind == zzNull {
			return false, "oneOf: null field"
		}
	}
	return true, ""
}

var zzNamed = []string{"Int", "Float", "String", "Boolean", "ID", "E", "I", "O", "R", "JSON"}
var zzWrap = []string{"%", "%!", "[%]", "[%!]", "[%]!", "[%!]!", "[[%]]", "[[%!]!]!"}

// VerifC06Validate: H-C06a/b. Variable validation accepts exactly the coercible values.
// wrapMax bounds the wrapper shapes explored; deviations bounds the number of off-canonical choices per value;
// flags bit 0: the variable declares `= null`; bit 1: DisableExposingVariablesContent (then the message must not
// echo the sentinel leaf contents Q9Z / 90125).
func VerifC06Validate(wrapMax, deviations, hasDefault int) {
	named := zzNamed[nondetChoice(len(zzNamed))]
	wrap := zzWrap[nondetChoice(wrapMax)]
	typeText := strings.Replace(wrap, "%", named, 1)
	t := zzParseType(typeText)
	g := &zzGenJ{deviations: deviations}
	val := g.gen(t, true, 1)

	var vars bytes.Buffer
	vars.WriteString("{")
	if val != nil {
		vars.WriteString(`"x":`)
		val.render(&vars)
	}
	vars.WriteString("}")
	opText := "query($x: " + typeText
	if hasDefault&1 != 0 && !t.nonNull {
		opText += " = null"
	}
	opText += "){f}"
	verifObserveString("input", opText+" "+vars.String())

	def, rep := astparser.ParseGraphqlDocumentString(zzSchema)
	verifAssume(!rep.HasErrors())
	op, rep2 := astparser.ParseGraphqlDocumentString(opText)
	verifAssume(!rep2.HasErrors())
	op.Input.Variables = vars.Bytes()
	report := operationreport.Report{}
	norm := astnormalization.NewWithOpts(astnormalization.WithExtractVariables())
	norm.NormalizeOperation(&op, &def, &report)
	if report.HasErrors() {
		verifCover("normalization rejects")
		return
	}
	noExpose := hasDefault&2 != 0
	validator := NewVariablesValidator(VariablesValidatorOptions{DisableExposingVariablesContent: noExpose})
	err := validator.Validate(&op, &def, op.Input.Variables)

	want, why := zzCoercible(t, val, val != nil, hasDefault&1 != 0 && !t.nonNull)
	if err == nil {
		verifCover("accepted")
		if !want {
			verifAssert(false, "accepted but not coercible: "+why)
		}
	} else {
		verifCover("rejected")
		if want {
			verifAssert(false, "rejected but coercible ("+g.what+") type "+wrap)
		} else {
			// the message names the variable
			verifAssert(strings.Contains(err.Error(), `"$x"`), "rejection names the variable")
			if noExpose {
				verifCover("rejected without exposing content")
				msg := err.Error()
				verifAssert(!strings.Contains(msg, "Q9Z") && !strings.Contains(msg, "90125"), "message does not echo variable content when exposing is disabled")
			}
		}
	}
	_ = ast.InvalidRef
}

// zzOneRequest builds (operation, variables) for a symbolic type/value pair and normalizes it.
func zzOneRequest(names []string, wrapMax, deviations int) (*ast.Document, *ast.Document, []byte, bool) {
	named := names[nondetChoice(len(names))]
	wrap := zzWrap[nondetChoice(wrapMax)]
	typeText := strings.Replace(wrap, "%", named, 1)
	t := zzParseType(typeText)
	g := &zzGenJ{deviations: deviations}
	val := g.gen(t, true, 1)
	var vars bytes.Buffer
	vars.WriteString("{")
	if val != nil {
		vars.WriteString(`"x":`)
		val.render(&vars)
	}
	vars.WriteString("}")
	opText := "query($x: " + typeText + "){f}"
	verifObserveString("input", opText+" "+vars.String())
	def, rep := astparser.ParseGraphqlDocumentString(zzSchema)
	verifAssume(!rep.HasErrors())
	op, rep2 := astparser.ParseGraphqlDocumentString(opText)
	verifAssume(!rep2.HasErrors())
	op.Input.Variables = vars.Bytes()
	report := operationreport.Report{}
	astnormalization.NewWithOpts(astnormalization.WithExtractVariables()).NormalizeOperation(&op, &def, &report)
	return &op, &def, op.Input.Variables, !report.HasErrors()
}

// VerifC06Reuse: H-C06c. A validator that is reused for a second request gives the verdict a fresh
// validator gives (no state survives from the first request), for every pair of requests in the bound.
func VerifC06Reuse(wrapMax, deviations int) {
	op1, def1, vars1, ok1 := zzOneRequest([]string{"Int"}, wrapMax, deviations)
	op2, def2, vars2, ok2 := zzOneRequest([]string{"Int", "I"}, wrapMax, deviations)
	verifAssume(ok1 && ok2)
	shared := NewVariablesValidator(VariablesValidatorOptions{})
	err1 := shared.Validate(op1, def1, vars1)
	err2 := shared.Validate(op2, def2, vars2)
	fresh := NewVariablesValidator(VariablesValidatorOptions{}).Validate(op2, def2, vars2)
	if err1 != nil {
		verifCover("first request rejected")
	} else {
		verifCover("first request accepted")
	}
	verifAssert((err2 == nil) == (fresh == nil), "reused validator gives the fresh validator's verdict")
	if err2 != nil && fresh != nil {
		verifAssert(err2.Error() == fresh.Error(), "reused validator gives the fresh validator's message")
	}
}
