#!/usr/bin/env python3
"""Single source of truth for /verif/checks.json and /verif/MANIFEST.json.
Run after editing:  python3 gen_manifest.py
"""
import json, os

HERE = os.path.dirname(os.path.abspath(__file__))

def spec(name, pkg, harness, entry, args=(), bounds="", covers=(), dir="v2", timeout=900, **kw):
    d = {"name": name, "dir": dir, "pkg": pkg, "harness": list(harness), "entry": entry, "args": list(args),
         "bounds": bounds, "covers": list(covers), "timeout_s": timeout}
    d.update(kw)
    return d

LEX = ["lexer/c05_lexer.go"]
TTL = ["caching/c16_ttl.go"]
DELTA = ["cache/c16_delta.go"]

def ttl_raw(prefix, n, covers=()):
    pre = {0: "", 1: "public,", 2: "public,max-age=", 3: "public, s-maxage=1,", 4: "max-age=7,", 5: "public,max-age=60,s-maxage=", 6: "public,s-maxage=", 7: "public,no-cache="}[prefix]
    return spec("H-C16a[%d,%d]" % (prefix, n), "./pkg/caching", TTL, "VerifC16TTLRaw", [prefix, n],
                bounds="header = %r + every string of %d arbitrary bytes; defaultTTL any int64" % (pre, n), covers=covers)

def ttl_dir(k, arglen, vary, timeout=900):
    return spec("H-C16b[%d,%d,%d]" % (k, arglen, vary), "./pkg/caching", TTL, "VerifC16TTLDirectives", [k, arglen, vary],
                bounds="%d directives from {public,max-age,s-maxage,no-store,no-cache,private,x}, argument forms none/=arg/=\"arg\" with %d arbitrary bytes%s; defaultTTL any int64" % (k, arglen, ", symbolic first-letter case and separator space" if vary else ""),
                covers=["stored", "not stored", "stored with s-maxage", "stored with max-age", "stored with default"], timeout=timeout)

PARSER = ["parser/c05_parser.go"]
ACC = ["accepted", "rejected"]

def parse_raw(n, timeout=900):
    return spec("H-C05c-raw[%d]" % n, "./pkg/astparser", PARSER, "VerifC05Parse", [0, n, 0], "every byte string of length %d: parse totality, refs in range, print/parse fixed point (compact and indented)" % n, ACC, timeout=timeout)

PREFIXES = ["{f(a:|)}", "{f(a:[|", "{f(a:{b:|})}", "query($v:|){f}", "query($v:T=|){f}", "{|}", "{...|}", "{f@|}", "type T{f(a:Int|):Int}", "type T|{f:Int}",
            "directive@d on |", '\"\"\"|\"\"\" scalar S', '\"|\" scalar S', "union U=|", "enum E{|}", "extend | T @d", '{f(a:\"|\")}', '{f(a:\"\"\"|\"\"\")}', "fragment F on T|{f}", "schema{query:|}", "{f(a:1|)}", "query Q|{f}", "input I{a:[Int!]!=|}"]

def parse_prefix(p, n):
    return spec("H-C05c-pre[%d,%d]" % (p, n), "./pkg/astparser", PARSER, "VerifC05Parse", [3, n, p], "input = %s with | replaced by every string of %d arbitrary bytes" % (PREFIXES[p], n), [], timeout=900)

def parse_gen(defs, budget, timeout=1800):
    return spec("H-C05c-gen[%d,%d]" % (defs, budget), "./pkg/astparser", PARSER, "VerifC05Parse", [4, defs, budget], "generated documents: %d definitions from 16 templates (type system + executable), at most %d optional parts, names/digits/string bytes symbolic" % (defs, budget), ["accepted non-empty"], timeout=timeout)

def limits(mode, defs, budget, timeout=1800):
    return spec("H-C05d[%d,%d,%d]" % (mode, defs, budget), "./pkg/astparser", PARSER, "VerifC05Limits", [mode, defs, budget], "generated executable documents (%d definitions, <=%d optional parts%s), MaxDepth in [0,6] and MaxFields in [0,8] symbolic" % (defs, budget, ", keyword-like names" if mode == 6 else ""), ["accepted", "rejected by a limit"], timeout=timeout)

PROPS = {}

PROPS["C05"] = dict(
    title="Parsing is total and printing round-trips",
    level_text="bounded symbolic execution of the real lexer/tokenizer/parser/printer SSA: every input within the stated byte/token bounds lies on a solver-decided path; assertions discharged by z3 on each path",
    level_note="bounds: input length in bytes/tokens as listed in evidence; trusted base: gosym SSA semantics (validated on every run by replaying path witnesses natively), z3 4.8.12",
    design_ref="DESIGN.md §4 C05",
    assumptions=[],
    stubs=[],
    quick=[
        spec("H-C05a[3]", "./pkg/lexer", LEX, "VerifC05LexerRead", [3], "all byte strings of length 3 (0x00-0xFF each)", ["eof", "string", "integer", "float", "comment", "ident", "spread"]),
        spec("H-C05a[4]", "./pkg/lexer", LEX, "VerifC05LexerRead", [4], "all byte strings of length 4", ["eof", "string", "integer", "float", "comment", "ident", "spread"]),
        parse_raw(3),
    ] + [parse_prefix(p, 2) for p in range(23)] + [parse_gen(1, 1), limits(7, 1, 1), limits(6, 1, 1)],
    thorough=[
        parse_raw(4), parse_gen(1, 2), parse_gen(2, 1, 3000), limits(7, 1, 2, 3000), limits(6, 1, 2, 3000),
    ] + [parse_prefix(p, 3) for p in range(23)] + [
        spec("H-C05a[4]", "./pkg/lexer", LEX, "VerifC05LexerRead", [4], "all byte strings of length 4", ["eof", "string", "integer", "float", "comment", "ident", "spread"]),
        spec("H-C05a[5]", "./pkg/lexer", LEX, "VerifC05LexerRead", [5], "all byte strings of length 5", ["eof", "string", "integer", "float", "comment", "ident", "spread", "blockstring"], timeout=3000),
    ],
)

def c16d(k, timeout=1800):
    return spec("H-C16d[%d]" % k, "./pkg/engine/datasource/graphql_datasource", ["gqlds/c01_exec.go", "gqlds/c01_fed.go", "gqlds/c16_cache.go", "common/zz_json.go", "common/zz_exec.go"], "VerifC16Cache", [k],
                "history of %d requests through one resolver with one entity cache on federation F1: each request solver-chosen from 8 operations (overlapping and nested entity batches, partial hits, a null entity in first position of a batch followed by a request for that entity alone, two requests differing only in an argument variable's value); Cache-Control header of the subgraph answers solver-chosen from 7 values; GetMany/SetMany faults solver-chosen; real loader key derivation, lookup, collect, flush and caching.TTL; oracle = the same request without a cache" % k,
                ["stored", "nothing stored", "a subgraph request was answered from the cache"], timeout=timeout)

PROPS["C16"] = dict(
    title="Entity response caching is transparent and honours Cache-Control",
    level_text="bounded symbolic execution of caching.TTL / the Cache-Control lexer+parser / DeltaSeconds arithmetic from go/ssa against an independent RFC 9111 directive scanner written in the harness; every header within the stated bounds lies on a solver-decided path",
    level_note="bounds: raw header bytes after fixed prefixes, directive-level headers, digit strings; duration arithmetic decided by cvc5 --solve-bv-as-int=sum; transparency over histories of 2 (quick) / 3 (thorough) requests from 8 operations on one federation with one header value per history and fail-always cache faults (H-C16d); changing subgraph data, expiry (time does not pass) and non-batch entity fetches are outside; trusted base: gosym, z3/cvc5, the harness oracles",
    design_ref="DESIGN.md §4 C16",
    assumptions=["header arrives as one Cache-Control field line (multi-line joining is strings.Join and is exercised with a single value)"],
    stubs=["fmt.Errorf: message formatted natively or opaquely (never inspected)"],
    quick=[c16d(2), 
        ttl_raw(0, 3), ttl_raw(1, 3, ["stored", "not stored"]), ttl_raw(2, 4, ["stored with max-age"]), ttl_raw(3, 3, ["stored with s-maxage"]),
        ttl_raw(4, 3), ttl_raw(5, 2, ["stored with s-maxage"]), ttl_raw(6, 3, ["stored with s-maxage"]), ttl_raw(7, 3),
        ttl_dir(2, 1, 1),
        spec("H-C16c-dur", "./pkg/engine/cache", DELTA, "VerifC16AsDuration", [], "every int32 DeltaSeconds", ["negative", "non-negative"], solver="cvc5-int"),
        spec("H-C16c-parse[10]", "./pkg/engine/cache", DELTA, "VerifC16ParseDelta", [10], "every string of 10 ASCII digits", ["clamped", "exact"], solver="cvc5-int"),
    ],
    thorough=[c16d(3, 3000), 
        ttl_raw(0, 4), ttl_raw(1, 4, ["stored", "not stored"]), ttl_raw(2, 5, ["stored with max-age"]), ttl_raw(3, 4, ["stored with s-maxage"]),
        ttl_raw(4, 4), ttl_raw(5, 3, ["stored with s-maxage"]), ttl_raw(6, 4, ["stored with s-maxage"]), ttl_raw(7, 4),
        ttl_dir(2, 1, 1), ttl_dir(3, 1, 0, 1800), ttl_dir(2, 2, 0, 1800),
        spec("H-C16c-dur", "./pkg/engine/cache", DELTA, "VerifC16AsDuration", [], "every int32 DeltaSeconds", ["negative", "non-negative"], solver="cvc5-int"),
        spec("H-C16c-parse[10]", "./pkg/engine/cache", DELTA, "VerifC16ParseDelta", [10], "every string of 10 ASCII digits", ["clamped", "exact"], solver="cvc5-int"),
        spec("H-C16c-parse[20]", "./pkg/engine/cache", DELTA, "VerifC16ParseDelta", [20], "every string of 20 ASCII digits (int64 overflow region)", ["clamped"], solver="cvc5-int", timeout=1800),
    ],
)

VARS = ["varsval/c06_vars.go"]

def c06(wrap, dev, flags, timeout=1800):
    return spec("H-C06a[%d,%d,%d]" % (wrap, dev, flags), "./pkg/variablesvalidation", VARS, "VerifC06Validate", [wrap, dev, flags],
                "variable type = one of 10 named types (Int, Float, String, Boolean, ID, enum, 3 input objects incl. oneOf, custom scalar) x first %d of 8 wrapper shapes up to [[T!]!]!; JSON value = canonical conforming value with at most %d deviations (absent, null, wrong kind, boundary number, enum letter (symbolic), list shape, unknown field) at any position; flags=%d (1: `= null` default, 2: content exposure disabled); pipeline = normalization (default extraction, list coercion, input default injection) then Validate" % (wrap, dev, flags),
                ["accepted", "rejected"] if dev > 0 else ["accepted"], timeout=timeout)

def c06reuse(wrap, dev):
    return spec("H-C06c[%d,%d]" % (wrap, dev), "./pkg/variablesvalidation", VARS, "VerifC06Reuse", [wrap, dev],
                "two consecutive requests on one validator: first over Int, second over Int or input object I, first %d wrapper shapes, <=%d deviations each; verdict and message equal a fresh validator's" % (wrap, dev),
                ["first request rejected", "first request accepted"])

PROPS["C06"] = dict(
    title="Variable validation accepts exactly the coercible variable values",
    level_text="bounded symbolic execution of the engine's variable pipeline (normalization's default extraction / list coercion / input default injection, then variablesvalidation) from go/ssa against an independent implementation of the spec's CoerceVariableValues written in the harness",
    level_note="bounds: type shapes and deviation count as listed; leaf contents are representatives except the enum letter (symbolic); trusted base: gosym, z3, the harness oracle; astjson/jsonparser/gjson/sjson are interpreted as plain Go",
    design_ref="DESIGN.md §4 C06",
    assumptions=["go-arena: Alloc returns nil so the library falls back to make/new (documented nil-arena behaviour)"],
    stubs=["fmt.Sprintf/Fprint: executed natively on concrete arguments"],
    quick=[c06(8, 0, 0), c06(8, 1, 0), c06(8, 1, 1), c06(8, 1, 2), c06reuse(1, 1)],
    thorough=[c06(8, 1, 0), c06(8, 1, 3), c06(4, 2, 0, 3000), c06reuse(2, 1)],
)

C04T = ["astvalidation/c04_types.go"]
PROPS["C04"] = dict(
    title="Operation validation accepts exactly the spec-valid operations",
    level_text="PARTIAL: bounded symbolic execution of the variable-usage compatibility kernel (operationTypeSatisfiesDefinitionType) against the spec's IsVariableUsageAllowed/AreTypesCompatible on all well-formed type chains up to the stated depth",
    level_note="partial claim: variable-usage type compatibility (symbolic type chains) and two structural rules on finite instance families (field selection merging w.r.t. arguments, fragment spread possibility); the other validation rules are outside (DESIGN.md §4 C04); trusted base: gosym, z3",
    design_ref="DESIGN.md §4 C04",
    assumptions=["type chains are well formed (end at a named type, NonNull never wraps NonNull)"],
    stubs=[],
    quick=[spec("H-C04a[5]", "./pkg/astvalidation", C04T, "VerifC04VariableUsage", [5], "all pairs of well-formed type chains of depth <= 5 over 3 type names, hasDefault symbolic", ["allowed", "not allowed"]),
           spec("H-C04b[0]", "./pkg/astvalidation", ["astvalidation/c04_rules.go"], "VerifC04Rules", [0], "field selection merging: every pair of 18 argument spellings (16 equivalence classes: ints, input object literals incl. nested and lists, lists, strings, enums, two arguments in both orders) on Query.echo under the same response key (plain or aliased) or different aliases; valid iff same key implies same arguments", ["mergeable", "conflict"]),
           spec("H-C04b[1]", "./pkg/astvalidation", ["astvalidation/c04_rules.go"], "VerifC04Rules", [1], "fragment spread possibility: inline fragment on each of 9 types (4 unions, interface, 4 objects) inside a selection of 3 abstract parents; valid iff the possible types intersect", ["possible", "impossible"])],
    thorough=[spec("H-C04a[6]", "./pkg/astvalidation", C04T, "VerifC04VariableUsage", [6], "all pairs of well-formed type chains of depth <= 6 over 3 type names, hasDefault symbolic", ["allowed", "not allowed"])],
)

LIT = ["parser/c05_parser.go", "parser/c15_literals.go"]
FWD = ["astnorm/c15_vars.go", "common/zz_json.go"]

def c15(entry, n, what, covers, timeout=1800):
    return spec("H-C15a-%s[%d]" % (what, n), "./pkg/astparser", LIT, entry, [n], "every valid GraphQL %s literal with %d body bytes (validity per the October 2021 grammar, assumed in the harness); real lexer+parser, ValueToJSON; oracle: RFC 8259 automaton + independent decoders" % (what, n), covers, timeout=timeout)

PROPS["C15"] = dict(
    title="Variable values survive extraction and forwarding",
    level_text="bounded symbolic execution of literal extraction (lexer, parser, ValueToJSON incl. the block string value algorithm) against independent GraphQL/JSON decoders, and of variable extraction on a template with symbolic variable presence; every literal within the stated byte bounds lies on a solver-decided path",
    level_note="bounds: literal body bytes; block string bodies restricted to printable ASCII, space, tab, CR, LF; forwarding through InputTemplate/loader (H-C15c) not covered yet; trusted base: gosym (incl. its model of json.Encoder string encoding), z3, harness oracles",
    design_ref="DESIGN.md §4 C15",
    assumptions=["literals are valid per the October 2021 lexical grammar (invalid literals accepted by the lenient lexer are outside)"],
    stubs=["encoding/json.Encoder.Encode(string): RFC 8259 string encoding as Go implements it, modelled in the engine", "go-arena Alloc returns nil"],
    quick=[spec("H-C15c", "./pkg/engine/datasource/graphql_datasource", ["gqlds/c01_exec.go", "gqlds/c01_fed.go", "gqlds/c15_forward.go", "common/zz_json.go", "common/zz_exec.go"], "VerifC15Forward", [],
                "forwarding through the real pipeline on federation F1: 4 operations using client variables $f: String and $n: Int as arguments of Review.text reached through a single entity fetch, a batch entity fetch, a second entity jump, and under two aliases; state of each variable (omitted / explicit null / value incl. an escaped quote) solver-chosen; the stub subgraph applies the real data source's un-nulling of undefined variables and inspects the variables of the request it receives", ["forwarded"]),
           c15("VerifC15StringLiteral", 5, "string", ["valid json"]), c15("VerifC15NumberLiteral", 6, "number", ["number"]), c15("VerifC15BlockString", 4, "blockstring", ["valid json"]), c15("VerifC15BlockString", 5, "blockstring", ["valid json"]),
           spec("H-C15b", "./pkg/astnormalization", FWD, "VerifC15Forwarding", [], "template query($v: Int = 10, $w: [Int]){ f(a: {p: $v, q: $w, r: 5, t: \"x\\ty\"}) s(x: $v, y: $w) } with $v in {absent, null, 3} x $w in {absent, null, 7, [7,null]}", ["checked"])],
    thorough=[c15("VerifC15StringLiteral", 7, "string", ["valid json"], 3000), c15("VerifC15NumberLiteral", 8, "number", ["number"]), c15("VerifC15BlockString", 6, "blockstring", ["valid json"], 3000),
              spec("H-C15b", "./pkg/astnormalization", FWD, "VerifC15Forwarding", [], "template with symbolic variable presence (12 combinations)", ["checked"])],
)

C08S = ["postprocess/c08_structure.go"]

def c08(k, mode, outside, timeout=1800):
    return spec("H-C08a[%d,%d,%d]" % (k, mode, outside), "./pkg/engine/postprocess", C08S, "VerifC08Structure", [k, mode, outside],
                "%d single fetches, every acyclic dependency relation (symbolic bits), every input order, 3 id assignments%s; organizer = %s (multi-fetch merging off)" % (k, ", optional dependencies on out-of-tree fetch ids listed first/last" if outside else "", "scheduler (with its validator and wave fallback)" if mode else "legacy waves (orderSequenceByDependencies + createParallelNodes)"),
                ["organized"], timeout=timeout)

PROPS["C08"] = dict(
    title="Fetch execution respects data dependencies under every schedule",
    level_text="PARTIAL (structural half): bounded symbolic execution of the fetch-tree organizers from go/ssa; for every dependency relation/input order within the bound the organized Sequence/Parallel tree contains every fetch once and sequences every in-tree dependency before its dependant (reference 'completed-before' relation written independently of validateSchedule)",
    level_note="partial: the runtime half (loader issue-after-merge under interleavings, H-C08c) and multi-fetch merging are not covered; bounds: number of fetches; trusted base: gosym, z3",
    design_ref="DESIGN.md §4 C08",
    assumptions=["the dependency relation is acyclic (constructed so: a fetch depends only on fetches of lower topological rank)"],
    stubs=[],
    quick=[c08(4, 0, 0), c08(4, 1, 0), c08(3, 0, 1), c08(3, 1, 1)],
    thorough=[c08(5, 0, 0), c08(5, 1, 0), c08(4, 1, 1, 3000)],
)

C02H = ["resolve/c02_render.go", "common/zz_json.go"]
C02T = ["scalars + nested object + list of strings", "abstract object (1 or 2 possible types, type-conditioned fields) + enum + custom scalar", "list of objects + float", "list of abstract objects"]

def c02(t, dev, timeout=1800):
    return spec("H-C02[%d,%d]" % (t, dev), "./pkg/engine/resolve", C02H, "VerifC02Render", [t, dev],
                "template plan %d (%s), every nullability assignment (symbolic), data = canonical conforming document with <=%d deviations (absent, null, every wrong JSON kind, typename A/B/unknown/missing, enum letter symbolic, list length 0/1/2)" % (t, C02T[t], dev),
                ["reference has errors", "reference clean"] if dev > 0 else ["reference clean"], timeout=timeout)

PROPS["C02"] = dict(
    title="Rendered response is well-formed and type-safe whatever subgraphs return",
    level_text="bounded symbolic execution of Resolvable.Init+Resolve (two-pass walk, null bubbling, type/typename/enum checks, error rendering) from go/ssa against a reference CompleteValue-with-null-bubbling written independently in the harness; every nullability assignment and every data document within the deviation budget lies on a solver-decided path",
    level_note="bounds: 4 template plans, deviation budget; for ill-typed values the oracle accepts nulling any nullable ancestor up to data:null (as the property allows), for null values exactly the nearest; extensions/tracing/Apollo modes off; trusted base: gosym, z3, harness oracle; astjson interpreted as plain Go",
    design_ref="DESIGN.md §4 C02",
    assumptions=["root data is a JSON object (the loader always merges into an object)", "go-arena Alloc returns nil (nil-arena behaviour)"],
    stubs=["fmt.Sprintf executed natively on concrete arguments"],
    quick=[c02(0, 2), c02(1, 2), c02(2, 2), c02(3, 2)],
    thorough=[c02(0, 3), c02(1, 3), c02(2, 3), c02(3, 3)],
)

C11H = ["resolve/c11_inbound.go"]

def c11(n, cancel, fail, preempt, timeout=1800):
    return spec("H-C11a[%d,%d,%d|p%s]" % (n, cancel, fail, preempt), "./pkg/engine/resolve", C11H, "VerifC11Inbound", [n, cancel, fail],
                "%d concurrent requests through the real ArenaResolveGraphQLResponse (inbound single-flight, loader, resolvable) with a stub data source; request ids symbolic (solver decides sharing)%s%s; every interleaving at visible operations (sync.Map, atomics, channels, mutexes, in-flight fetch) with at most %s preemptive switches" % (n, ", request 0's context cancelled at a symbolic point" if cancel else "", (", upstream failure symbolic" if fail & 1 else "") + (", client 0's writer may be broken" if fail & 2 else "") + (", forwarded header set symbolic per request" if fail & 4 else "") + (", every request has its own inbound key (sharing only through the subgraph-request single flight)" if fail & 8 else ""), preempt),
                ["all returned", "work was shared"], timeout=timeout, preempt=preempt)

PROPS["C11"] = dict(
    title="Request de-duplication is transparent and never wedges or crashes",
    level_text="bounded model checking of the real resolver code under an engine scheduler: goroutines are interpreted from go/ssa, every visible synchronisation operation is a possible context switch, the schedule is a decision variable explored exhaustively within the preemption bound while request data stays symbolic; panics (double close), deadlocks and wrong outputs are violations, replayed natively by forcing the counterexample's preemptions with gates inserted into an overlay copy of the source",
    level_note="bounds: number of requests, preemption bound (CHESS-style), one fetch per request; A-DRF: plain accesses between visible operations are not interleaved; the subgraph-request single flight is covered through the same entry point (H-C11a[3,1,8]: distinct inbound keys); the ws dial coalescing is not covered; trusted base: gosym scheduler and primitives models (sync, atomic, channels, context), z3",
    design_ref="DESIGN.md §4 C11",
    assumptions=["A-DRF (data-race freedom between visible operations)", "stub DataSource.Load yields once while the request is in flight and returns the caller's context error if cancelled by then"],
    stubs=["sync.Map, sync.Mutex/RWMutex/WaitGroup, sync/atomic, channels/select, sync.Pool (always New), go-arena Pool (no arena)", "context.WithValue modelled; rest of context interpreted"],
    quick=[c11(2, 0, 0, 2), c11(2, 0, 1, 2), c11(2, 1, 0, 2), c11(2, 0, 6, 2), c11(3, 1, 8, 1)],
    thorough=[c11(2, 0, 1, 3), c11(2, 1, 1, 2, 3000), c11(3, 0, 0, 2, 3000)],
)

C12H = ["resolve/c11_inbound.go", "resolve/c12_subs.go"]

def c12(nsubs, nev, mode, preempt, timeout=1800):
    acts = []
    if mode & 1: acts.append("Complete")
    if mode & 2: acts.append("Done")
    if mode & 4: acts.append("subscriber 0 unsubscribes at a symbolic point")
    if mode & 8: acts.append("subscriber 0 (the trigger's creator) disconnects: its request context is cancelled at a symbolic point")
    return spec("H-C12[%d,%d,%d|p%d]" % (nsubs, nev, mode, preempt), "./pkg/engine/resolve", C12H, "VerifC12Delivery", [nsubs, nev, mode],
                "real Resolver subscription machinery (AsyncResolveGraphQLSubscription, trigger registry, subscriptionUpdater, executeSubscriptionUpdate, removal paths) with a stub source and recording writers; %d subscriber(s) on one trigger, %d event(s), then %s; every interleaving at visible operations with at most %d preemptive switches" % (nsubs, nev, ", ".join(acts) or "nothing", preempt),
                ["done"], timeout=timeout, preempt=preempt)

PROPS["C12"] = dict(
    title="Subscription delivery is ordered, exact, and stops at completion",
    level_text="bounded model checking of the real subscription code under the engine scheduler (goroutines interpreted from go/ssa, every visible synchronisation operation a possible context switch, schedule explored exhaustively within the preemption bound): per subscriber the messages are the events in source order, nothing is written after completion was signalled (the writer stub inspects the completed channel on every call), writer calls never overlap; counterexample schedules are replayed natively through gates inserted into an overlay copy",
    level_note="bounds: subscribers, events, one history shape per mode (source: events, Complete, Done; client: unsubscribe), preemption bound; heartbeat ticker, shutdown, filters and startup hooks not exercised; fetch timeout timer never fires; A-DRF; trusted base: gosym scheduler/primitive models, z3",
    design_ref="DESIGN.md §4 C12",
    assumptions=["A-DRF", "time.AfterFunc timers never fire (the subscription fetch timeout is outside)"],
    stubs=["SubscriptionDataSource, SubscriptionResponseWriter, Reporter, AsyncErrorWriter: harness stubs", "sync/atomic/channels/context primitives modelled by the engine"],
    quick=[c12(1, 2, 3, 2), c12(1, 1, 7, 2), c12(1, 2, 5, 2), c12(2, 1, 11, 1)],
    thorough=[c12(2, 1, 3, 2, 3000), c12(1, 2, 7, 2, 3000), c12(1, 1, 7, 3, 3000), c12(2, 2, 3, 1, 3000), c12(2, 1, 15, 1, 3000)],
)

PROPS["C13"] = dict(
    title="Subscription triggers are shared, started once, and always cleaned up",
    level_text="bounded model checking (same harness and scheduler as C12): after the source's Done no trigger or subscription record remains, the reported subscription and trigger counts are balanced, every subscriber's completion is signalled, and the upstream is started exactly once per trigger, on every interleaving within the preemption bound",
    level_note="bounds as C12; trigger identity (hash of input and headers), start failures, client removal and shutdown are not exercised yet; trusted base as C12",
    design_ref="DESIGN.md §4 C13",
    assumptions=["A-DRF", "timers never fire"],
    stubs=["as C12"],
    quick=[c12(1, 1, 3, 2), c12(1, 1, 7, 2)],
    thorough=[c12(2, 1, 3, 2, 3000), c12(2, 1, 7, 1, 3000), c12(2, 1, 15, 1, 3000)],
)

C14H = ["resolve/c02_render.go", "common/zz_json.go", "resolve/c11_inbound.go", "resolve/c14_auth.go"]

def c14render(mode, dev, two, timeout=900):
    return spec("H-C14b[%d,%d,%d]" % (mode, dev, two), "./pkg/engine/resolve", C14H, "VerifC14Render", [mode, dev, two],
                "real Resolvable (Init, %s, Resolve) on plan user{id email* org{email*}} items[{secret*}] (* protected%s), every nullability assignment and every decision function over the 3 protected coordinates symbolic; data = canonical document carrying sentinel values with <=%d deviations (absent, null, wrong kinds, list length 0/1/2)" % ("post-fetch Authorizer" if mode == 0 else "authorizePreFetch with a BatchAuthorizer, seeded from the listed coordinates", ", User.email served by two data sources" if two else "", dev),
                ["denied at a reached position", "no certainly-reached denial"], timeout=timeout)

def c14fetch(op, mode):
    return spec("H-C14c[%d,%d]" % (op, mode), "./pkg/engine/resolve", C14H, "VerifC14Fetch", [op, mode],
                "real ArenaResolveGraphQLResponse + Loader + Resolvable, one %s fetch with root fields a,b; which are protected, the decision per protected field and field nullability symbolic; %s" % ("mutation" if op else "query", "up-front BatchAuthorizer" if mode else "legacy Authorizer (AuthorizePreFetch / AuthorizeObjectField)"),
                ["request must not be sent", "request is sent"] if (op or mode) else ["request is sent"])

def c14collect(nf, nfetch, timeout=900):
    return spec("H-C14a[%d,%d]" % (nf, nfetch), "./pkg/engine/postprocess", ["postprocess/c14_collect.go"], "VerifC14Collect", [nf, nfetch],
                "real collectAuthorizationCoordinates.Process on a response tree with %d leaf field(s) (+ the enclosing object field) and %d fetch(es); type names in {A,B}, field names in {x,y}, data source ids in {1,2}, protection flags, a second data source for the first field, RawFetches vs fetch tree placement: all symbolic" % (nf, nfetch),
                ["some protected coordinate"], timeout=timeout)

PROPS["C14"] = dict(
    title="Denied fields never reach the client and denied mutations never reach a subgraph",
    level_text="bounded symbolic execution of the real authorization code in three composable pieces, the decision function being a symbolic variable in each: (a) the plan-time coordinate collector lists exactly the protected (data source, type, field) triples of a symbolic response tree and fetch list; (b) given the listed coordinates, the real Resolvable renders a response whose data equals the reference completion of the data with every denied field nulled (so sentinel values of denied fields cannot appear and the denial null-propagates), and a denial at a certainly reached position is reported with code and path; (c) through the real resolver entry point and loader, a fetch is sent iff the request-sent rule allows it and denied root fields are reported",
    level_note="bounds: one fixed plan shape per harness (3 protected coordinates, nested object and list), <=2 data deviations, one fetch with two root fields; abstract types/type-conditioned protected fields, deferred payloads and subscription updates are not exercised; H-C14d starts from the planner configuration and runs the whole pipeline on 7 operations; composition of (a) with (b)/(c) is by argument: (b)/(c) are given exactly the coordinate list that (a) shows the collector produces; trusted base: gosym, z3, reference completion",
    design_ref="DESIGN.md §4 C14",
    assumptions=["the coordinate list handed to authorizePreFetch in (b)/(c) is the set H-C14a shows the collector produces", "authorizer stubs are pure functions of the coordinate (no errors returned)"],
    stubs=["Authorizer / BatchAuthorizer: harness stubs answering from a symbolic decision table", "DataSource: harness stub returning sentinel data", "go-arena (no arena), sync.Pool (always New)"],
    quick=[c14collect(2, 0), c14render(0, 1, 0), c14render(1, 1, 1), c14fetch(0, 1), c14fetch(1, 1), c14fetch(0, 0), c14fetch(1, 0),
           spec("H-C14d", "./pkg/engine/datasource/graphql_datasource", ["gqlds/c01_exec.go", "gqlds/c01_fed.go", "gqlds/c14_planner.go", "common/zz_json.go", "common/zz_exec.go"], "VerifC14Planner", [],
                "end to end from the planner configuration: federation F1 with User.username and Product.price protected in plan.Configuration.Fields; 7 operations (plain, aliased, duplicated under two aliases, below entity jumps, inside a type fragment), decision per coordinate and authorizer mode (post-fetch Authorizer / pre-fetch BatchAuthorizer) solver-chosen; real planner (FieldInfo.HasAuthorizationRule), collector, resolver, loader, resolvable; oracle = monolith on data with the denied fields nulled",
                ["a selected field is denied"])],
    thorough=[c14collect(2, 1, 1800), c14collect(3, 0, 1800), c14render(0, 2, 1, 1800), c14render(1, 2, 1, 1800), c14render(1, 2, 0, 1800)],
)

C01H = ["gqlds/c01_exec.go", "gqlds/c01_fed.go", "gqlds/c01_fed2.go", "common/zz_json.go", "common/zz_exec.go"]

def c01(depth, budget, maxdev, timeout=1800):
    return spec("H-C01a[%d,%d,%d]" % (depth, budget, maxdev), "./pkg/engine/datasource/graphql_datasource", C01H, "VerifC01Fed", [depth, budget, maxdev],
                "federation F1 (users/reviews/products: 3 subgraphs, 3 entity types with single-field keys, nested entity jumps in both directions, lists, nullable and non-null fields); operations: one of 3 root fields + optional aliased second root field, nesting depth <=%d, at most %d optional parts (solver-chosen); data: fixed object graph with one of %d single-null deviations (nullable null, non-null violated in users/reviews subgraph, list null, entity reference null); real normalization, validation, planner, post-processing, resolver, loader, resolvable; subgraphs = reference executor on the same data answering whatever query they are sent, validating each request against the subgraph's federation schema" % (depth, budget, maxdev + 1),
                ["clean"] + (["with errors"] if maxdev >= 2 else []), timeout=timeout)

F2DESC = "federation F2 (accounts/content/products/shipping/labels: interfaces Node and Catalog with entity-typed fields, list of entities below an interface field, union-free abstract selections with and without type fragments, custom scalar DateTime!, @requires chain accounts.zip -> shipping.estimate -> labels.label computed by the subgraph from the representation it is sent, repeated entity references in one batch)"

def c01b(depth, budget, maxdev, timeout=1800):
    return spec("H-C01b[%d,%d,%d]" % (depth, budget, maxdev), "./pkg/engine/datasource/graphql_datasource", C01H, "VerifC01Fed2", [depth, budget, maxdev],
                F2DESC + "; operations: one of 5 root fields, nesting <=%d, <=%d optional parts; %d data deviations; stub subgraphs also check that every @requires input is present in the representation" % (depth, budget, maxdev + 1),
                ["clean"] + (["with errors"] if maxdev >= 2 else []), timeout=timeout)

def c01c(maxdev, timeout=1800):
    return spec("H-C01c[%d]" % maxdev, "./pkg/engine/datasource/graphql_datasource", C01H, "VerifC01Fed2Ops", [maxdev],
                F2DESC + "; 9 fixed operations each needing one planner/loader mechanism, %d data deviations" % (maxdev + 1), ["compared"], timeout=timeout)

PROPS["C01"] = dict(
    title="Federated execution equals monolithic execution of the supergraph",
    level_text="bounded symbolic execution of the whole gateway pipeline (astnormalization, astvalidation, plan.Planner with the graphql_datasource planner, postprocess, resolve.Resolver/Loader/Resolvable) interpreted from go/ssa; the operation's optional parts and the data deviation are solver decisions, every combination within the bounds is explored; oracle = a reference GraphQL executor (CollectFields/CompleteValue with null bubbling) run as the monolith on the supergraph and, behind the real loader, as each subgraph on its own schema: data equality, error presence equivalence, planning success, every subgraph request valid against the subgraph schema and asking only for fields it defines",
    level_note="bounds: two federation layouts (F1; F2 with interfaces, custom scalar, @requires chain), generated operation families and fixed operations, fixed data graphs with single deviations; no @provides, unions, field arguments or client variables, no composite or nested keys, no shared non-key fields; goroutine schedule of planner and loader fixed (run to completion in spawn order), map iteration order fixed (insertion order) - both varied separately under C09; trusted base: gosym incl. its encoding/json and timer models, the reference executor",
    design_ref="DESIGN.md §4 C01",
    assumptions=["the data universe is consistent: every subgraph sees the same value for a shared field", "timers/tickers never fire (heartbeat loop idle)", "fixed goroutine schedule and map order (varied under C09)"],
    stubs=["subgraph HTTP transport replaced by a DataSource stub that parses the rendered request input and executes the query with the reference executor", "encoding/json, reflect.TypeOf(x).String(), time.NewTicker/NewTimer/AfterFunc: engine models", "go-arena: no arena"],
    quick=[c01(2, 2, 0), c01(2, 1, 7), c01c(5), c01b(2, 1, 0)],
    thorough=[c01(2, 3, 7, 3000), c01(3, 4, 0, 3000), c01b(2, 3, 5, 3000), c01b(3, 3, 0, 3000)],
)

C09H = ["gqlds/c01_plan.go", "gqlds/c09_determinism.go"]
C09OPS = ["nested entity jumps", "two root fields, deep nesting", "variables, @include, fragment spread", "aliases, same root field twice"]

def c09(op, mapb, sched, preempt=1, timeout=1800):
    return spec("H-C09a[%d,%d,%d|p%d]" % (op, mapb, sched, preempt), "./pkg/engine/datasource/graphql_datasource", C09H, "VerifC09Determinism", [op, mapb, sched],
                "operation %d (%s) on a 2-subgraph federation planned twice with fresh planners: reference with insertion-ordered maps and run-to-completion goroutines, then with at most %d map iterations (anywhere in normalization, validation, planning, post-processing) started at a solver-chosen rotation%s; digest = fetch tree structure, every subgraph request, dependencies, merge paths, response shape" % (op, C09OPS[op], mapb, " and every schedule of the planner's per-data-source goroutines with <=%d preemptions" % preempt if sched else ""),
                ["planned"], timeout=timeout, preempt=preempt)

C09BH = ["gqlds/c01_exec.go", "gqlds/c01_fed.go", "gqlds/c01_fed2.go", "gqlds/c09_options.go", "common/zz_json.go", "common/zz_exec.go"]

def c09b(maxdev, sched, timeout=1800):
    return spec("H-C09b[%d,%d]" % (maxdev, sched), "./pkg/engine/datasource/graphql_datasource", C09BH, "VerifC09Options", [maxdev, sched],
                "federation F2, 9 fixed operations, %d data deviations: response with default post-processing vs. one solver-chosen option set (de-duplication off; multi-fetch on; DAG scheduling on; both on; parallel nodes off), and first vs. second execution of the same plan object%s; subgraphs = reference executor" % (maxdev + 1, "; loader goroutine schedules of the optimized plan explored with <=1 preemption" if sched else ""),
                ["compared"], timeout=timeout, preempt=1)

PROPS["C09"] = dict(
    title="Planning is deterministic; caching and plan optimizations are transparent",
    level_text="bounded symbolic execution of the real planner pipeline with map iteration order and goroutine schedule as decision variables: the engine's maps iterate in insertion order by default and, when exploration is on, every range over a map with >=2 entries starts at a solver-chosen rotation (bounded number of non-default choices per path); the planner's parallel node collection runs under the engine scheduler. The plan digest must equal the reference digest on every explored order/schedule",
    level_note="bounds: 4 fixed operations, rotations only (not all permutations), <=2 non-default map orders per path, preemption bound 1; H-C09b compares responses across post-processing option sets and across re-execution of one plan object; the execution engine's plan cache keying, variable renaming and subgraph-operation minification are not covered; trusted base: gosym scheduler and map model",
    design_ref="DESIGN.md §4 C09",
    assumptions=["A-DRF for the planner's goroutines"],
    stubs=["encoding/json, reflect.TypeOf(x).String(): engine models"],
    quick=[c09(3, 2, 0), c09(0, 1, 1), c09b(0, 0),
           spec("H-C09c", "./pkg/engine/datasource/graphql_datasource", C09H, "VerifC09History", [],
                "two plans in a row on one process, each solver-chosen from 4 operations of which one is rejected inside the data source planner (conflicting field types in a subgraph SDL); sync.Pool hands back what was put (engine option pool_reuse), so pooled planner helpers carry state from the first plan into the second; the second plan (success/failure and digest) must equal the plan of a fresh process", ["second plan succeeds", "second plan fails"], pool_reuse=True)],
    thorough=[c09(0, 2, 1, 1, 3000), c09(1, 1, 1, 1, 3000), c09(2, 1, 1, 1, 3000), c09b(5, 0, 3000), c09b(0, 1, 3000)],
)

C03H = ["astnorm/c03_norm.go", "common/zz_json.go", "common/zz_exec.go"]

def c03(depth, budget, pair, pipeline, timeout=1800):
    return spec("H-C03a[%d,%d,%d,%d]" % (depth, budget, pair, pipeline), "./pkg/astnormalization", C03H, "VerifC03Normalize", [depth, budget, pair, pipeline],
                "generated operations on a schema with objects, interface, union, input objects with defaults, enums, list types: selection nesting <=%d, at most %d non-default generator choices (which fields, aliases, @skip/@include with literal or variable conditions, argument values incl. null, lists, single values to be list-coerced, nested input objects, variables inside object literals; spelled directly, duplicated, through inline fragments with/without type condition, fragment spreads, literals moved into variables with value / with default / with overridden default)%s; pipeline %s; oracle = reference executor (CollectFields, CoerceArgumentValues with defaults and list coercion; echo fields return their coerced arguments) on fixed data" % (depth, budget, "; second spelling of the same meaning with <=%d syntactic choices" % pair if pair else "", ["one stage, all options (graphql.Request.Normalize)", "two stages as execution/engine Execute (normalize, validate, extract variables)"][pipeline]),
                ["normalized"] + (["pair compared"] if pair else []), timeout=timeout)

PROPS["C03"] = dict(
    title="Normalization preserves operation meaning, validity, and is idempotent",
    level_text="bounded symbolic execution of the real normalization pipeline (all astnormalization stages, astvalidation on the result, astprinter, VariablesMapper) on solver-chosen generated operations and variables: normalization succeeds, the result validates, the reference executor returns the same response for (original operation, original variables) and (normalized operation, normalized variables), a second normalization changes neither the printed form nor the variables, no fragment definition remains, and two spellings of one meaning reach the same canonical form after variable mapping",
    level_note="bounds: one schema, generated operation family with a budget of non-default choices, fixed data; normalization is taken as a function of operation and variable values (normalizing without the client's variables and WithIgnoreSkipInclude are outside the property); @defer expansion is under C10; definition normalization not covered; pipeline 1 mirrors the option lists of execution/engine Execute rather than executing it; trusted base: gosym, reference executor/coercion",
    design_ref="DESIGN.md §4 C03",
    assumptions=["generated operations are valid by construction (the repository's validator only accepts normalized documents, so it is applied after normalization)"],
    stubs=["encoding/json: engine model"],
    quick=[c03(1, 3, 0, 0), c03(1, 2, 1, 1)],
    thorough=[c03(2, 4, 0, 0, 3000), c03(1, 3, 0, 1, 3000), c03(1, 2, 2, 0, 3000), c03(1, 2, 2, 1, 3000)],
)

C07H = ["gqlds/c01_exec.go", "gqlds/c01_fed.go", "gqlds/c01_fed2.go", "gqlds/c07_faults.go", "common/zz_json.go", "common/zz_exec.go"]

def c07(fed, depth, budget, timeout=1800):
    return spec("H-C07a[%d,%d,%d]" % (fed, depth, budget), "./pkg/engine/datasource/graphql_datasource", C07H, "VerifC07Faults", [fed, depth, budget],
                ("federation F1 and operation family of H-C01a" if fed == 1 else "federation F2 (interfaces, @requires chain over three subgraphs, custom scalar) and " + ("the 9 fixed operations of H-C01c" if depth == 0 else "the operation family of H-C01b")) + " (depth <=%d, <=%d optional parts); the plan is executed fault-free and then again (same plan object, as from a plan cache) with one solver-chosen subgraph answering with one solver-chosen fault: transport error, empty body, non-JSON body, errors without data, errors with data:null (all requests), or one entity too few (entity requests)" % (depth, budget),
                ["a failing request was sent", "the faulted subgraph was not needed"], timeout=timeout)

PROPS["C07"] = dict(
    title="Subgraph failures are isolated to the data that depended on them",
    level_text="bounded symbolic execution of planner, loader and resolvable with fault injection at the data-source boundary: the response stays one well-formed document, its data equals the reference executor's answer in which exactly the fields that needed a request to the faulted subgraph are null (null-propagated per schema nullability, derived from an ownership model of the federation), an error is reported iff a failing answer was given, a fault in an unused subgraph changes nothing, and every request sent under the fault was also sent fault-free (same subgraph and query, subset of the representations)",
    level_note="bounds: federations F1 and F2, one faulted subgraph per run (all of its requests / all of its entity requests with two or more representations), generated operation families and fixed operations; the expected data comes from a per-field ownership model, and where the planner serves several fields of one subgraph with one request the coarser per-request model is accepted as well; non-2xx status codes (handled in httpclient below the stubbed boundary), several simultaneously failing subgraphs and ValidateRequiredExternalFields are not exercised; fixed schedule; trusted base: gosym, reference executor, ownership model",
    design_ref="DESIGN.md §4 C07",
    assumptions=["consistent data universe", "timers never fire"],
    stubs=["as C01; faults are injected by the DataSource stub"],
    quick=[c07(1, 2, 1), c07(2, 0, 0)],
    thorough=[c07(1, 2, 3, 3000), c07(2, 2, 2, 3000)],
)

def c17(budget, timeout=1800):
    return spec("H-C17a[%d]" % budget, "./pkg/introspection", ["introspection/c17_roundtrip.go"], "VerifC17RoundTrip", [budget],
                "generated schemas merged with the base schema: custom scalar (+@specifiedBy), enum (+deprecated value), input object with defaults, interface implementing interface, objects implementing one or two interfaces, union, custom root type names with schema definition, mutation type, directive definition (+repeatable, argument with default); fields with 0-2 arguments over 7 argument shapes (defaults: int, nested lists, input object literal with null, enum, escaped string, null), 6 output type shapes (wrapping depth <=3), descriptions as quoted or block strings, @deprecated with and without reason; at most %d optional features per schema" % budget,
                ["round trip compared"], timeout=timeout)

PROPS["C17"] = dict(
    title="Introspection describes exactly the configured schema",
    level_text="bounded symbolic execution of the real introspection generator, the JSON converter, astprinter and astparser on solver-chosen generated schemas: the generated introspection data, described through the package's own data structures, equals a description written by the schema generator itself independently of any AST code (types, fields, argument types, default values, enum values, interfaces, possible types, directives with locations and repeatability, descriptions, deprecations - nothing missing or invented), and marshal -> converter -> print -> parse -> generate reproduces the same data for all types including the built-in ones",
    level_note="bounds: generated schema family with a feature budget; type extensions, subscription root, deeply nested input defaults beyond the listed shapes, the __schema/__type answers through the engine are covered by H-C17b for one schema and 14 queries; encoding/json is the engine's model (validated against native encoding/json by the SELF check); trusted base: gosym, the generator-written description",
    design_ref="DESIGN.md §4 C17",
    assumptions=["directive locations are compared as a set"],
    stubs=["encoding/json Marshal / Decoder.Decode: engine model"],
    quick=[c17(2),
           spec("H-C17b", "./pkg/engine/datasource/introspection_datasource", ["introds/c17_engine.go", "common/zz_json.go", "common/zz_exec.go"], "VerifC17Engine", [],
                "introspection through the engine on one rich schema (custom root names, scalar with specifiedBy, deprecated enum value / field / argument / input field, interface implementing interface, union, repeatable directive, nested list defaults): 14 queries over __type and __schema (kinds, nested ofType chains, includeDeprecated on fields/enumValues/args/inputFields, unknown type, aliases); real config factory, planner, resolver (SkipArrayItem for deprecation) and data source Load; oracle = reference executor on the generated introspection data read as an object graph", ["compared"])],
    thorough=[c17(4, 3000)],
)

C19H = ["wsserver/c19_transportws.go", "wsserver/c19_graphqlws.go", "common/zz_json.go"]

def c19(proto, k, sched, timeout=1800):
    entry, name, n = ("VerifC19TransportWS", "H-C19a", 14) if proto == 0 else ("VerifC19GraphQLWS", "H-C19b", 11)
    return spec("%s[%d,%d]" % (name, k, sched), "./subscription/websocket", C19H, entry, [k, sched],
                "%d client messages, each solver-chosen from a %d-message alphabet (connection_init with/without payload, subscribe/start of a subscription, a query, a failing query, a mutation, with duplicate ids, bad payload, complete/stop of known and unknown ids, ping, pong, terminate, unknown type, truncated JSON, JSON array) through the real UniversalProtocolHandler, %s protocol handler, event handler, message reader/writer and ExecutorEngine; stub executor pool and scripted transport client; the client reads only when every server goroutine is blocked%s" % (k, n, "graphql-transport-ws" if proto == 0 else "graphql-ws", "; goroutine schedules of engine and handler explored with <=1 preemption" if sched else ""),
                ["connection closed by the server", "connection stayed open"] if proto == 0 else ["trace accepted"], dir="execution", timeout=timeout, preempt=1)

def c19t(k, sched, timeout=1800):
    return spec("H-C19c[%d,%d]" % (k, sched), "./subscription/websocket", C19H, "VerifC19TransportWSTimers", [k, sched],
                "graphql-transport-ws with time in the alphabet: %d symbols, each solver-chosen from 9 client messages, 'every pending timer expires now' and 'one read fails'; after the script the connection is either closed or keeps failing reads while time passes (solver-chosen); timers are fired by the harness (engine: verifFireTimers; native replay: 30 ms durations and real time)" % k,
                ["connection closed by the server", "connection stayed open"], dir="execution", timeout=timeout, preempt=1)

PROPS["C19"] = dict(
    title="WebSocket server obeys graphql-ws / graphql-transport-ws on any message sequence",
    level_text="bounded symbolic execution of the real WebSocket subscription server stack below the network connection: every sequence of k messages over the alphabet is explored, the unified trace of client messages, server messages and close codes must be accepted by a reference protocol state machine (ack once after init; 4401 subscribe before init, 4429 second init, 4400 unknown type or JSON syntax error, 4409 duplicate id, no other close; pong for ping; operation output only after init, only for subscribed ids, nothing after the id's terminal message, every query/mutation terminated exactly once; handler returns when the client is gone)",
    level_note="bounds: k<=3 (quick) / 4 (thorough) messages from a fixed alphabet; in H-C19a/b timers never fire; in H-C19c timer expiry is a symbol of the alphabet (all pending timers at once), which exercises the connection-init timeout (4408), heartbeat, subscription update ticks and the read-error timeout, but not orders among simultaneously pending timers; the gobwas/ws framing and net.Conn client are below the stubbed TransportClient; encoding/json is the engine's model; trusted base: gosym scheduler, reference state machine",
    design_ref="DESIGN.md §4 C19",
    assumptions=["timers never fire", "the client does not send while the server still has runnable work (reads happen at quiescence)"],
    stubs=["subscription.TransportClient: scripted client recording writes and close reasons", "subscription.ExecutorPool/Executor: stub deciding operation type and result from the query text", "encoding/json, time.ParseDuration: engine models"],
    quick=[c19(0, 3, 0), c19(1, 3, 0), c19(0, 2, 1), c19(1, 2, 1), c19t(3, 0)],
    thorough=[c19(0, 4, 0, 3000), c19(1, 4, 0, 3000), c19(0, 3, 1, 3000), c19t(4, 0, 3000)],
)

C10H = ["gqlds/c01_exec.go", "gqlds/c01_fed.go", "gqlds/c10_defer.go", "common/zz_json.go", "common/zz_exec.go"]

def c10(depth, budget, sched, timeout=1800):
    return spec("H-C10a[%d,%d,%d]" % (depth, budget, sched), "./pkg/engine/datasource/graphql_datasource", C10H, "VerifC10Defer", [depth, budget, sched],
                "federation F1; generated operations with @defer on inline fragments with and without type condition (siblings, nested, inside lists, across entity jumps), nesting <=%d, <=%d optional parts; real normalization with defer expansion, validation, planner with defer info, post-processing (defer extraction, defer tree), ResolveGraphQLDeferResponse with per-group loaders%s" % (depth, budget, "; completion orders of the deferred groups explored with <=1 preemption" if sched else ""),
                ["reconstructed 0"], timeout=timeout, preempt=1)

def c10ops(sched, timeout=1800):
    return spec("H-C10b[%d]" % sched, "./pkg/engine/datasource/graphql_datasource", C10H, "VerifC10DeferOps", [sched],
                "federation F1; 7 fixed operations (same object field under two defers with a nested defer; aliases above a defer below lists; nested defer beside an earlier sibling defer; labels; duplicate fields across defers; two aliased root fields)%s" % ("; completion orders of the deferred groups explored with <=1 preemption" if sched else ""),
                ["reconstructed 0"], timeout=timeout, preempt=1)

PROPS["C10"] = dict(
    title="@defer delivers the same data incrementally with a well-formed stream",
    level_text="bounded symbolic execution of the real defer pipeline end to end with the deferred groups' goroutines under the engine scheduler: frames (what is written between two flushes) are parsed and checked against the pending/incremental/completed grammar (initial frame first, ids announced once and before use, nothing for unannounced or completed ids, every announced id completed exactly once, hasNext false exactly on the last frame, writer completed once, no interleaved writes, termination), and the initial data with every incremental payload merged at pending path + subPath must equal the reference executor's data for the same operation without @defer",
    level_note="bounds: federation F1 without abstract types, generated family and 7 fixed operations, preemption bound 1, fault-free subgraphs; @defer(if: $var), @defer under abstract types, errors inside deferred payloads and @stream are not exercised; trusted base: gosym scheduler, reference executor, the frame parser (engine json model)",
    design_ref="DESIGN.md §4 C10",
    assumptions=["A-DRF", "timers never fire"],
    stubs=["as C01; DeferResponseWriter: recording stub"],
    quick=[c10ops(0), c10(1, 2, 0), c10ops(1)],
    thorough=[c10(2, 3, 0, 3000), c10(1, 2, 1, 3000), c10(2, 4, 0, 3000)],
)

def c18(k, cancel, preempt=2, timeout=1800):
    return spec("H-C18a[%d,%d|p%d]" % (k, cancel, preempt), "./pkg/engine/datasource/graphql_datasource/subscriptionclient/transport", ["wsclient/c18_dispatch.go"], "VerifC18Dispatch", [k, cancel],
                "real wsConnection (subscribe, readLoop, dispatch, removeSub, unsubscribe, shutdown) with two subscriptions on one connection; %d upstream wire messages, each solver-chosen (data/complete/error for A or B, data for an unknown id, pong), then silence or a read failure (solver-chosen)%s; every interleaving at visible operations with <=%d preemptions" % (k, "; the client cancels A at any point" if cancel else "", preempt),
                ["checked"], timeout=timeout, preempt=preempt)

PROPS["C18"] = dict(
    title="Upstream subscription connections are multiplexed without cross-talk",
    level_text="bounded model checking of the real per-connection multiplexer under the engine scheduler: for every sequence of upstream messages and every interleaving with a client-side cancel, each subscription receives exactly the messages addressed to it, in upstream order, up to its own terminal message; complete/error for one subscription does not end the other; subscriptions still active when the connection ends get exactly one connection error and none after their own terminal message; the connection is closed once the last subscription is gone and stays open while one is active",
    level_note="partial: only the dispatch layer of one established WebSocket connection is covered. Not covered (stated, not claimed): connection sharing and its key (connKey over endpoint/protocol/headers/init payload), dial coalescing and cancellation while dialling (getOrDial/dial need a live websocket handshake), the wire protocols' JSON decoding (protocol package reads through coder/websocket), ping/pong liveness and idle timers (timers never fire), and the whole SSE transport. The protocol.Protocol boundary is stubbed; (*websocket.Conn).Close is intercepted; bounds: 2 subscriptions, k<=3 messages, preemption bound 2; trusted base: gosym scheduler",
    design_ref="DESIGN.md §4 C18",
    assumptions=["A-DRF", "idleTimeout = 0 (the connection is closed as soon as it is empty)"],
    stubs=["protocol.Protocol: scripted upstream", "*websocket.Conn: zero object in the engine (Close intercepted), loopback connection in the native replay"],
    quick=[c18(3, 0), c18(2, 1)],
    thorough=[c18(3, 1, 2, 3000), c18(4, 0, 2, 3000)],
)

NOT_APPLICABLE = {
    "C20": "The gRPC datasource's data path runs on protoreflect/dynamicpb/protocompile (reflection, unsafe, generated descriptors); no SSA->SMT encoding of it is within reach of the engine built here, and the property is about exactly that path (DESIGN.md §5).",
}

def main():
    exec(open(os.path.join(HERE, "props_extra.py")).read(), globals()) if os.path.exists(os.path.join(HERE, "props_extra.py")) else None
    checks = {}
    for pid, p in sorted(PROPS.items()):
        checks[pid] = {"level": "model_checking", "assumptions": p.get("assumptions", []), "stubs": p.get("stubs", []),
                       "quick": p["quick"], "thorough": p.get("thorough", [])}
    # engine self-checks (translation validation of engine models against the native build); not a property
    checks["SELF"] = {"level": "model_checking", "assumptions": [], "stubs": [], "thorough": [],
                      "quick": [spec("S-json", "./pkg/engine/cache", ["cache/zz_jsontest.go"], "VerifJSONModel", [], "encoding/json model vs native encoding/json on a fixed corpus of typed values (witness replay compares every observation)"),
                                spec("S-merge", "./pkg/engine/cache", ["cache/zz_mergetest.go"], "VerifMergeTest", [], "merged evaluation vs forked reference")]}
    json.dump(checks, open(os.path.join(HERE, "checks.json"), "w"), indent=1)
    all_ids = ["C%02d" % i for i in range(1, 21)]
    na = []
    for pid in all_ids:
        if pid not in PROPS:
            na.append({"property_id": pid, "reason": NOT_APPLICABLE.get(pid, "no check registered yet: the harnesses planned in DESIGN.md §4 for this property have not run clean on the unchanged tree (work in progress)")})
    manifest = {
        "version": 1,
        "setup_cmd": "./setup.sh",
        "hooks": {
            "guard": "verif",
            "enable": "no source change: harness files from /verif/harness are injected into the package under test as virtual zz_verif_*.go files (go/packages Overlay for SSA loading, `go test -overlay` for native replay); MANIFEST.hooks.source_commits lists fix: commits only",
            "baseline_off_cmd": "for m in . execution v2; do MF=$(cd /repo/$m && gw=$(go env GOWORK 2>/dev/null); if [ -z \"$gw\" ] || [ \"$gw\" = off ]; then echo -mod=mod; fi); (cd /repo/$m && go test $MF -json -vet=off -count=1 -timeout 25m ./...); done",
            "source_commits": SOURCE_COMMITS,
            "add_only": True,
        },
        "engines": [{"name": "gosym", "path": "/verif/gosym", "serves_properties": sorted(PROPS),
                     "kind_free_text": "path-forking symbolic interpreter of go/ssa (SSA rebuilt from /repo's current source on every run; harnesses injected by overlay) with z3/cvc5 deciding every branch feasibility and assertion; counterexamples and path witnesses are replayed against the natively compiled code"}],
        "checks": [],
        "not_applicable": na,
        "notes": "Every check is bounded symbolic execution of the real code (go/ssa -> SMT). Exit 0 = all harnesses HOLD within registered bounds (KNOWN-FINDING lines allowed); 1 = natively reproduced counterexample not in known_findings.jsonl; 2 = inconclusive (never registered as passing).",
    }
    for pid, p in sorted(PROPS.items()):
        manifest["checks"].append({
            "property_id": pid,
            "quick_cmd": "./check %s quick" % pid,
            "thorough_cmd": "./check %s thorough" % pid,
            "evidence_file": "/verif/evidence/%s.json" % pid,
            "replay_cmd_template": "./check %s quick --replay {path}" % pid,
            "engine": "gosym",
            "level_claimed": {"category": "model_checking", "text": p["level_text"], "design_ref": p["design_ref"]},
            "level_note": p["level_note"],
            "technique": "bounded symbolic execution of go/ssa with SMT (z3 4.8.12; cvc5 for arithmetic kernels), native replay of solver models",
        })
    json.dump(manifest, open(os.path.join(HERE, "MANIFEST.json"), "w"), indent=1)
    print("wrote checks.json, MANIFEST.json: claimed", sorted(PROPS), "n/a", [x["property_id"] for x in na])

import subprocess
SOURCE_COMMITS = [l.split()[0] for l in subprocess.run(["git", "-C", "/repo", "log", "--reverse", "--format=%h %s"], capture_output=True, text=True).stdout.splitlines() if l.split(" ", 1)[1].startswith("fix:")]

if __name__ == "__main__":
    main()
