import re,collections,sys
t=open(sys.argv[1]).read()
cex=re.findall(r'^CEX kind=(\S+) label="([^"]*)".*?\n(?:.*\n)?    obs input=(".*")$', t, re.M)
groups=collections.Counter()
for kind,label,inp in cex:
    s=eval(inp)
    norm=re.sub(r'(?<![A-Za-z"])[a-zA-Z_](?![A-Za-z])','x',s)
    norm=re.sub(r'"[^"]"','"s"',norm)
    norm=re.sub(r'\b\d\b','9',norm)
    groups[(label,norm)]+=1
print(len(cex),'cex',len(groups),'groups')
for (label,norm),n in sorted(groups.items()):
    print(n,label,'|',repr(norm))
