#!/bin/sh
# usage: tools_labels.sh <dir> <pkg> <harness> <entry> <args> [timeout] -- group counterexamples by label, with one sample input each
out=$(mktemp)
GOSYM_KEEP=3 timeout ${6:-1200} /verif/bin/gosym run -dir "$1" -pkg "$2" -harness "$3" -entry "$4" -args "$5" -timeout ${6:-900} > $out 2>&1
grep -E '"paths"|wall_s|inconclusive_paths|engine|truncated' $out | cut -c1-300 | tr '\n' ' '; echo
python3 - $out <<'PY'
import re,sys,json
t=open(sys.argv[1]).read()
m=re.search(r'"violation_groups": \{(.*?)\n \}',t,re.S)
if m:
    for l in m.group(1).strip().split('\n'): print('  ',l.strip()[:200])
seen=set()
for mm in re.finditer(r'^CEX kind=(\S+) label="([^"]*)".*?\n    nondets=.*\n((?:    obs .*\n)*)',t,re.M):
    if mm.group(2) in seen: continue
    seen.add(mm.group(2)); print('  SAMPLE',mm.group(2)[:100],'::',mm.group(3).strip()[:300])
PY
rm -f $out
