// Portions derived from golang.org/x/tools/go/ssa/interp (BSD-style license,
// Copyright 2013 The Go Authors).

package main

import (
	"fmt"
	"go/token"
	"go/types"
	"strings"
	"unicode/utf8"
	"unsafe"

	"golang.org/x/tools/go/ssa"
)

// If the target program panics, the interpreter panics with this type.
type targetPanic struct {
	v     value
	stack string
}

func (p targetPanic) String() string { return toString(p.v) }

// engineError: the engine cannot model something; the path is inconclusive.
type engineError struct{ msg string }

// pathAbort ends the current path silently (failed assumption, infeasible, ...).
type pathAbort struct{ reason string }

var runtimeErrorStringType types.Type // runtime.errorString, set at load

func errString(msg string) value {
	return iface{t: runtimeErrorStringType, v: strings.TrimPrefix(msg, "runtime error: ")}
}

func rtPanic(format string, args ...any) {
	panic(targetPanic{v: errString(fmt.Sprintf(format, args...))})
}

func unsupported(format string, args ...any) {
	panic(engineError{fmt.Sprintf(format, args...)})
}

func mustDeref(t types.Type) types.Type {
	if p, ok := t.Underlying().(*types.Pointer); ok {
		return p.Elem()
	}
	panic(engineError{fmt.Sprintf("mustDeref: %s is not a pointer", t)})
}

// ---------------------------------------------------------------- kinds

func kindWidth(k types.BasicKind) uint8 {
	switch k {
	case types.Bool, types.UntypedBool:
		return 0
	case types.Int8, types.Uint8:
		return 8
	case types.Int16, types.Uint16:
		return 16
	case types.Int32, types.Uint32, types.UntypedRune:
		return 32
	case types.Int, types.Int64, types.Uint, types.Uint64, types.Uintptr, types.UntypedInt:
		return 64
	}
	panic(engineError{fmt.Sprintf("kindWidth: kind %d", k)})
}

func kindSigned(k types.BasicKind) bool {
	switch k {
	case types.Int, types.Int8, types.Int16, types.Int32, types.Int64, types.UntypedInt, types.UntypedRune:
		return true
	}
	return false
}

func basicKind(t types.Type) types.BasicKind {
	if b, ok := t.Underlying().(*types.Basic); ok {
		k := b.Kind()
		switch k {
		case types.UntypedBool:
			return types.Bool
		case types.UntypedInt:
			return types.Int
		case types.UntypedRune:
			return types.Int32
		}
		return k
	}
	return types.Invalid
}

// valueKind returns the basic kind of a concrete or symbolic scalar.
func valueKind(v value) types.BasicKind {
	switch v := v.(type) {
	case sym:
		return v.k
	case bool:
		return types.Bool
	case int:
		return types.Int
	case int8:
		return types.Int8
	case int16:
		return types.Int16
	case int32:
		return types.Int32
	case int64:
		return types.Int64
	case uint:
		return types.Uint
	case uint8:
		return types.Uint8
	case uint16:
		return types.Uint16
	case uint32:
		return types.Uint32
	case uint64:
		return types.Uint64
	case uintptr:
		return types.Uintptr
	}
	return types.Invalid
}

// fromBits builds a concrete value of kind k from raw bits.
func fromBits(k types.BasicKind, v uint64) value {
	switch k {
	case types.Bool:
		return v != 0
	case types.Int:
		return int(v)
	case types.Int8:
		return int8(v)
	case types.Int16:
		return int16(v)
	case types.Int32:
		return int32(v)
	case types.Int64:
		return int64(v)
	case types.Uint:
		return uint(v)
	case types.Uint8:
		return uint8(v)
	case types.Uint16:
		return uint16(v)
	case types.Uint32:
		return uint32(v)
	case types.Uint64:
		return v
	case types.Uintptr:
		return uintptr(v)
	}
	panic(engineError{fmt.Sprintf("fromBits: kind %d", k)})
}

func toBits(v value) uint64 {
	switch v := v.(type) {
	case bool:
		if v {
			return 1
		}
		return 0
	case int:
		return uint64(v)
	case int8:
		return uint64(v)
	case int16:
		return uint64(v)
	case int32:
		return uint64(v)
	case int64:
		return uint64(v)
	case uint:
		return uint64(v)
	case uint8:
		return uint64(v)
	case uint16:
		return uint64(v)
	case uint32:
		return uint64(v)
	case uint64:
		return v
	case uintptr:
		return uint64(v)
	}
	panic(engineError{fmt.Sprintf("toBits: %T", v)})
}

// term lifts a scalar to a term.
func (m *Machine) term(v value) *Term {
	if s, ok := v.(sym); ok {
		return s.t
	}
	k := valueKind(v)
	if k == types.Invalid {
		panic(engineError{fmt.Sprintf("term: cannot lift %T", v)})
	}
	return m.tt.Const(toBits(v), kindWidth(k))
}

// mkval wraps a term as a value of kind k, concretising constants.
func mkval(t *Term, k types.BasicKind) value {
	if t.op == OpConst {
		return fromBits(k, t.val)
	}
	return sym{t, k}
}

// ---------------------------------------------------------------- zero

func zero(t types.Type) value {
	switch t := t.(type) {
	case *types.Basic:
		if t.Kind() == types.UntypedNil {
			panic("untyped nil has no zero value")
		}
		if t.Info()&types.IsUntyped != 0 {
			t = types.Default(t).(*types.Basic)
		}
		switch t.Kind() {
		case types.Bool:
			return false
		case types.Int:
			return int(0)
		case types.Int8:
			return int8(0)
		case types.Int16:
			return int16(0)
		case types.Int32:
			return int32(0)
		case types.Int64:
			return int64(0)
		case types.Uint:
			return uint(0)
		case types.Uint8:
			return uint8(0)
		case types.Uint16:
			return uint16(0)
		case types.Uint32:
			return uint32(0)
		case types.Uint64:
			return uint64(0)
		case types.Uintptr:
			return uintptr(0)
		case types.Float32:
			return float32(0)
		case types.Float64:
			return float64(0)
		case types.Complex64:
			return complex64(0)
		case types.Complex128:
			return complex128(0)
		case types.String:
			return ""
		case types.UnsafePointer:
			return uptr{}
		default:
			panic(fmt.Sprint("zero for unexpected type:", t))
		}
	case *types.Pointer:
		return (*value)(nil)
	case *types.Array:
		a := make(array, t.Len())
		if t.Len() > 0 {
			if isScalarType(t.Elem()) {
				z := zero(t.Elem())
				for i := range a {
					a[i] = z
				}
			} else {
				for i := range a {
					a[i] = zero(t.Elem())
				}
			}
		}
		return a
	case *types.Named:
		return zero(t.Underlying())
	case *types.Alias:
		return zero(types.Unalias(t))
	case *types.Interface:
		return iface{} // nil type, methodset and value
	case *types.Slice:
		return []value(nil)
	case *types.Struct:
		s := make(structure, t.NumFields())
		for i := range s {
			s[i] = zero(t.Field(i).Type())
		}
		return s
	case *types.Tuple:
		if t.Len() == 1 {
			return zero(t.At(0).Type())
		}
		s := make(tuple, t.Len())
		for i := range s {
			s[i] = zero(t.At(i).Type())
		}
		return s
	case *types.Chan:
		return (*channel)(nil)
	case *types.Map:
		return (*omap)(nil)
	case *types.Signature:
		return (*ssa.Function)(nil)
	case *types.TypeParam:
		panic(engineError{"zero of type parameter (generic body not instantiated)"})
	}
	panic(fmt.Sprint("zero: unexpected ", t))
}

// ---------------------------------------------------------------- ints

// cint concretises an integer value (forking over the feasible values of a symbolic one).
func (fr *frame) cint(v value) int64 {
	if s, ok := v.(sym); ok {
		v = fr.m.concretize(fr, s)
	}
	return asInt64(v)
}

// ---------------------------------------------------------------- slice

func (fr *frame) slice(instr *ssa.Slice, x, lo, hi, max value) value {
	var Len, Cap int
	switch x := x.(type) {
	case string:
		Len = len(x)
		Cap = Len
	case symstr:
		Len = len(x.b)
		Cap = Len
	case []value:
		Len = len(x)
		Cap = cap(x)
	case *value: // *array
		if x == nil {
			rtPanic("runtime error: invalid memory address or nil pointer dereference")
		}
		a := (*x).(array)
		Len = len(a)
		Cap = len(a)
	}

	l := int64(0)
	if lo != nil {
		l = fr.cint(lo)
	}
	h := int64(Len)
	if hi != nil {
		h = fr.cint(hi)
	}
	m := int64(Cap)
	if max != nil {
		m = fr.cint(max)
	}
	if _, isStr := x.(string); isStr || instr == nil {
		// strings: bound is len
	}
	if m < 0 || m > int64(Cap) {
		rtPanic("runtime error: slice bounds out of range [::%d] with capacity %d", m, Cap)
	}
	if h < 0 || h > m {
		switch x.(type) {
		case string, symstr:
			rtPanic("runtime error: slice bounds out of range [:%d] with length %d", h, Len)
		}
		rtPanic("runtime error: slice bounds out of range [:%d] with capacity %d", h, m)
	}
	if l < 0 || l > h {
		rtPanic("runtime error: slice bounds out of range [%d:%d]", l, h)
	}

	switch x := x.(type) {
	case string:
		return x[l:h]
	case symstr:
		// substrings of a symbolic string stay views of the same backing bytes (strings are
		// immutable), so that pointer-identity idioms (gjson's fillIndex) keep working
		return symstr{b: x.b[l:h:h]}
	case []value:
		if x == nil {
			return x
		}
		return x[l:h:m]
	case *value: // *array
		a := (*x).(array)
		return []value(a)[l:h:m]
	}
	panic(fmt.Sprintf("slice: unexpected X type: %T", x))
}

// mkstr builds a string value from bytes, concrete if all bytes are.
func mkstr(b []value) value {
	for _, e := range b {
		if _, ok := e.(uint8); !ok {
			return symstr{b: append([]value(nil), b...)}
		}
	}
	bs := make([]byte, len(b))
	for i, e := range b {
		bs[i] = e.(uint8)
	}
	return string(bs)
}

func strBytes(v value) []value {
	switch v := v.(type) {
	case string:
		r := make([]value, len(v))
		for i := 0; i < len(v); i++ {
			r[i] = v[i]
		}
		return r
	case symstr:
		return v.b
	}
	panic(engineError{fmt.Sprintf("strBytes: %T", v)})
}

func strLen(v value) int {
	switch v := v.(type) {
	case string:
		return len(v)
	case symstr:
		return len(v.b)
	}
	panic(engineError{fmt.Sprintf("strLen: %T", v)})
}

// ---------------------------------------------------------------- equality

// eqTerm returns a Bool term for x == y at type t (constant when concrete).
func (m *Machine) eqTerm(t types.Type, x, y value) *Term {
	tt := m.tt
	switch x := x.(type) {
	case sym:
		return tt.Eq(x.t, m.term(y))
	case symstr:
		return m.strEq(x, y)
	case string:
		if ys, ok := y.(symstr); ok {
			return m.strEq(ys, x)
		}
		return tt.Bool(x == y.(string))
	case structure:
		y := y.(structure)
		tStruct := t.Underlying().(*types.Struct)
		r := tt.True
		for i, n := 0, tStruct.NumFields(); i < n; i++ {
			if f := tStruct.Field(i); f.Name() != "_" {
				r = tt.And(r, m.eqTerm(f.Type(), x[i], y[i]))
				if r.IsFalse() {
					return r
				}
			}
		}
		return r
	case array:
		y := y.(array)
		tElt := t.Underlying().(*types.Array).Elem()
		r := tt.True
		for i, xi := range x {
			r = tt.And(r, m.eqTerm(tElt, xi, y[i]))
			if r.IsFalse() {
				return r
			}
		}
		return r
	case iface:
		y := y.(iface)
		if !sameType(x.t, y.t) {
			return tt.False
		}
		if x.t == nil {
			return tt.True
		}
		if !types.Comparable(x.t) {
			rtPanic("runtime error: comparing uncomparable type %s", x.t)
		}
		return m.eqTerm(x.t, x.v, y.v)
	}
	if _, ok := y.(sym); ok {
		return tt.Eq(m.term(x), y.(sym).t)
	}
	return tt.Bool(equalsC(t, x, y))
}

func (m *Machine) strEq(x symstr, y value) *Term {
	yb := strBytes(y)
	if len(x.b) != len(yb) {
		return m.tt.False
	}
	r := m.tt.True
	for i := range x.b {
		r = m.tt.And(r, m.tt.Eq(m.term(x.b[i]), m.term(yb[i])))
		if r.IsFalse() {
			return r
		}
	}
	return r
}

// strLess returns a Bool term for x < y (lexicographic, bytewise).
func (m *Machine) strLess(x, y value, orEqual bool) *Term {
	xb, yb := strBytes(x), strBytes(y)
	tt := m.tt
	n := len(xb)
	if len(yb) < n {
		n = len(yb)
	}
	// result at the end of the common prefix
	var tail *Term
	if orEqual {
		tail = tt.Bool(len(xb) <= len(yb))
	} else {
		tail = tt.Bool(len(xb) < len(yb))
	}
	r := tail
	for i := n - 1; i >= 0; i-- {
		a, b := m.term(xb[i]), m.term(yb[i])
		r = tt.Ite(tt.Bin(OpULt, a, b), tt.True, tt.Ite(tt.Eq(a, b), r, tt.False))
	}
	return r
}

// eqnil returns the comparison x == y as a value (bool or sym) at type t.
func (m *Machine) eqnil(t types.Type, x, y value) value {
	switch t.Underlying().(type) {
	case *types.Map, *types.Signature, *types.Slice:
		// Since these types don't support comparison,
		// one of the operands must be a literal nil.
		switch x := x.(type) {
		case *omap:
			return (x != nil) == (y.(*omap) != nil)
		case *ssa.Function:
			switch y := y.(type) {
			case *ssa.Function:
				return (x != nil) == (y != nil)
			case *closure:
				return x != nil // closure is never nil
			case *ssa.Builtin:
				return x != nil
			}
		case *closure:
			switch y := y.(type) {
			case *ssa.Function:
				return y != nil
			}
			return true
		case *ssa.Builtin:
			return false
		case []value:
			return (x != nil) == (y.([]value) != nil)
		}
		panic(fmt.Sprintf("eqnil(%s): illegal dynamic type: %T", t, x))
	}
	r := m.eqTerm(t, x, y)
	return mkval(r, types.Bool)
}

// ---------------------------------------------------------------- binop

var binOpTab = map[token.Token][2]Op{ // [unsigned, signed]
	token.ADD: {OpAdd, OpAdd}, token.SUB: {OpSub, OpSub}, token.MUL: {OpMul, OpMul},
	token.QUO: {OpUDiv, OpSDiv}, token.REM: {OpURem, OpSRem},
	token.AND: {OpBvAnd, OpBvAnd}, token.OR: {OpBvOr, OpBvOr}, token.XOR: {OpBvXor, OpBvXor},
	token.LSS: {OpULt, OpSLt}, token.LEQ: {OpULe, OpSLe},
}

type opaqueFloat struct{}

func (fr *frame) binop(op token.Token, t types.Type, x, y value) value {
	m := fr.m
	if _, ok := x.(opaqueFloat); ok {
		unsupported("arithmetic on a float derived from a symbolic integer")
	}
	if _, ok := y.(opaqueFloat); ok {
		unsupported("arithmetic on a float derived from a symbolic integer")
	}
	switch op {
	case token.EQL:
		return m.eqnil(t, x, y)
	case token.NEQ:
		r := m.eqnil(t, x, y)
		if b, ok := r.(bool); ok {
			return !b
		}
		return mkval(m.tt.Not(r.(sym).t), types.Bool)
	}
	_, xs := x.(sym)
	_, ys := y.(sym)
	if !xs && !ys {
		// strings with symbolic bytes
		_, xss := x.(symstr)
		_, yss := y.(symstr)
		if xss || yss {
			switch op {
			case token.ADD:
				xb, yb := strBytes(x), strBytes(y)
				r := make([]value, 0, len(xb)+len(yb))
				r = append(append(r, xb...), yb...)
				return mkstr(r)
			case token.LSS:
				return mkval(m.strLess(x, y, false), types.Bool)
			case token.LEQ:
				return mkval(m.strLess(x, y, true), types.Bool)
			case token.GTR:
				return mkval(m.strLess(y, x, false), types.Bool)
			case token.GEQ:
				return mkval(m.strLess(y, x, true), types.Bool)
			}
			unsupported("binop %s on symbolic strings", op)
		}
		switch op {
		case token.QUO, token.REM:
			if k := valueKind(y); k != types.Invalid && k != types.Bool && toBits(y) == 0 {
				rtPanic("runtime error: integer divide by zero")
			}
		case token.SHL, token.SHR:
			if k := valueKind(y); kindSigned(k) && asInt64(y) < 0 {
				rtPanic("runtime error: negative shift amount")
			}
		}
		return binopC(op, t, x, y)
	}
	// symbolic integer / bool arithmetic
	tt := m.tt
	k := valueKind(x)
	if k == types.Invalid {
		unsupported("binop %s: symbolic operand with %T", op, x)
	}
	signed := kindSigned(k)
	si := 0
	if signed {
		si = 1
	}
	a := m.term(x)
	switch op {
	case token.SHL, token.SHR:
		// y may have a different integer type
		yk := valueKind(y)
		b := m.term(y)
		if kindSigned(yk) {
			// negative shift count panics
			neg := tt.Bin(OpSLt, b, tt.Const(0, b.w))
			if fr.branch(neg) {
				rtPanic("runtime error: negative shift amount")
			}
		}
		w := a.w
		// normalise count to width w, saturating
		var cnt *Term
		var big *Term // count >= w
		big = tt.Not(tt.Bin(OpULt, b, tt.Const(uint64(w), b.w)))
		if b.w > w {
			cnt = tt.Extract(b, w-1, 0)
		} else {
			cnt = tt.ZExt(b, w)
		}
		var r *Term
		if op == token.SHL {
			r = tt.Ite(big, tt.Const(0, w), tt.Bin(OpShl, a, cnt))
		} else if signed {
			r = tt.Ite(big, tt.Bin(OpAShr, a, tt.Const(uint64(w-1), w)), tt.Bin(OpAShr, a, cnt))
		} else {
			r = tt.Ite(big, tt.Const(0, w), tt.Bin(OpLShr, a, cnt))
		}
		return mkval(r, k)
	}
	b := m.term(y)
	switch op {
	case token.LAND:
		return mkval(tt.And(a, b), types.Bool)
	case token.LOR:
		return mkval(tt.Or(a, b), types.Bool)
	case token.AND_NOT:
		return mkval(tt.Bin(OpBvAnd, a, tt.BvNot(b)), k)
	case token.GTR:
		return mkval(tt.Bin(binOpTab[token.LSS][si], b, a), types.Bool)
	case token.GEQ:
		return mkval(tt.Bin(binOpTab[token.LEQ][si], b, a), types.Bool)
	case token.LSS, token.LEQ:
		return mkval(tt.Bin(binOpTab[op][si], a, b), types.Bool)
	case token.QUO, token.REM:
		z := tt.Eq(b, tt.Const(0, b.w))
		if fr.branch(z) {
			rtPanic("runtime error: integer divide by zero")
		}
		return mkval(tt.Bin(binOpTab[op][si], a, b), k)
	case token.AND, token.OR, token.XOR:
		if k == types.Bool {
			unsupported("bitwise op on bool")
		}
		return mkval(tt.Bin(binOpTab[op][si], a, b), k)
	case token.ADD, token.SUB, token.MUL:
		return mkval(tt.Bin(binOpTab[op][si], a, b), k)
	}
	unsupported("symbolic binop %s", op)
	return nil
}

func (fr *frame) unop(instr *ssa.UnOp, x value) value {
	m := fr.m
	switch instr.Op {
	case token.ARROW: // receive
		return fr.m.chanRecv(fr, instr, x.(*channel))
	case token.MUL:
		switch p := x.(type) {
		case *value:
			if p == nil {
				rtPanic("runtime error: invalid memory address or nil pointer dereference")
			}
			return load(mustDeref(instr.X.Type()), p)
		case symptr:
			return fr.loadSymPtr(mustDeref(instr.X.Type()), p)
		}
		unsupported("load through %T", x)
	}
	if s, ok := x.(sym); ok {
		switch instr.Op {
		case token.NOT:
			return mkval(m.tt.Not(s.t), types.Bool)
		case token.SUB:
			return mkval(m.tt.BvNeg(s.t), s.k)
		case token.XOR:
			return mkval(m.tt.BvNot(s.t), s.k)
		}
	}
	switch instr.Op {
	case token.SUB:
		switch x := x.(type) {
		case int:
			return -x
		case int8:
			return -x
		case int16:
			return -x
		case int32:
			return -x
		case int64:
			return -x
		case uint:
			return -x
		case uint8:
			return -x
		case uint16:
			return -x
		case uint32:
			return -x
		case uint64:
			return -x
		case uintptr:
			return -x
		case float32:
			return -x
		case float64:
			return -x
		case complex64:
			return -x
		case complex128:
			return -x
		}
	case token.NOT:
		return !x.(bool)
	case token.XOR:
		switch x := x.(type) {
		case int:
			return ^x
		case int8:
			return ^x
		case int16:
			return ^x
		case int32:
			return ^x
		case int64:
			return ^x
		case uint:
			return ^x
		case uint8:
			return ^x
		case uint16:
			return ^x
		case uint32:
			return ^x
		case uint64:
			return ^x
		case uintptr:
			return ^x
		}
	}
	panic(engineError{fmt.Sprintf("invalid unary op %s %T", instr.Op, x)})
}

// loadSymPtr reads base[idx] for symbolic idx as an ite-chain when elements are scalars.
func (fr *frame) loadSymPtr(T types.Type, p symptr) value {
	m := fr.m
	k := basicKind(T)
	if k != types.Invalid && k != types.String && len(p.base) <= 1024 {
		if w := func() (ok bool) {
			defer func() {
				if recover() != nil {
					ok = false
				}
			}()
			kindWidth(k)
			return true
		}(); w {
			// all elements must be scalar ints/bools
			return mkval(m.selectTerm(p.base, p.idx.t), k)
		}
	}
	i := asInt64(m.concretize(fr, p.idx))
	return load(T, &p.base[i])
}

// selectTerm builds base[idx] for an in-range symbolic idx: runs of equal elements are
// merged and the runs are selected by a balanced tree of unsigned comparisons.
func (m *Machine) selectTerm(base []value, idx *Term) *Term {
	tt := m.tt
	type run struct {
		lo int // first index of the run
		t  *Term
	}
	var runs []run
	for i, e := range base {
		t := m.term(e)
		if len(runs) == 0 || runs[len(runs)-1].t != t {
			runs = append(runs, run{i, t})
		}
	}
	var build func(a, b int) *Term // runs[a:b], b > a
	build = func(a, b int) *Term {
		if b-a == 1 {
			return runs[a].t
		}
		mid := (a + b) / 2
		// idx < runs[mid].lo ? left : right   (compare at idx's width; lo fits because idx is in range)
		c := tt.Bin(OpULt, idx, tt.Const(uint64(runs[mid].lo), idx.w))
		if uint64(runs[mid].lo) > mask(idx.w) {
			c = tt.True
		}
		return tt.Ite(c, build(a, mid), build(mid, b))
	}
	return build(0, len(runs))
}

// typeAssert checks whether dynamic type of itf is instr.AssertedType.
func typeAssert(instr *ssa.TypeAssert, itf iface) value {
	var v value
	err := ""
	if itf.t == nil {
		err = fmt.Sprintf("interface conversion: interface is nil, not %s", instr.AssertedType)
	} else if idst, ok := instr.AssertedType.Underlying().(*types.Interface); ok {
		v = itf
		err = checkInterface(idst, itf)
	} else if types.Identical(itf.t, instr.AssertedType) {
		v = itf.v // extract value
	} else {
		err = fmt.Sprintf("interface conversion: interface is %s, not %s", itf.t, instr.AssertedType)
	}
	if err != "" {
		if !instr.CommaOk {
			panic(targetPanic{v: errString(err)})
		}
		return tuple{zero(instr.AssertedType), false}
	}
	if instr.CommaOk {
		return tuple{copyVal(v), true}
	}
	return copyVal(v)
}

func checkInterface(itype *types.Interface, x iface) string {
	if meth, _ := types.MissingMethod(x.t, itype, true); meth != nil {
		return fmt.Sprintf("interface conversion: %v is not %v: missing method %s",
			x.t, itype, meth.Name())
	}
	return "" // ok
}

// ---------------------------------------------------------------- builtins

func (fr *frame) callBuiltin(fn *ssa.Builtin, args []value, callInstr ssa.CallInstruction) value {
	switch fn.Name() {
	case "append":
		if len(args) == 1 {
			return args[0]
		}
		switch s := args[1].(type) {
		case string:
			arg0 := args[0].([]value)
			if len(s) == 0 {
				return arg0
			}
			for i := 0; i < len(s); i++ {
				arg0 = append(arg0, s[i])
			}
			return arg0
		case symstr:
			if len(s.b) == 0 {
				return args[0]
			}
			return append(args[0].([]value), s.b...)
		}
		// append([]T, ...[]T) []T
		src := args[1].([]value)
		if len(src) == 0 {
			return args[0]
		}
		dst := args[0].([]value)
		// elements are values: copy aggregates
		if len(src) > 0 {
			switch src[0].(type) {
			case structure, array:
				for _, e := range src {
					dst = append(dst, copyVal(e))
				}
				return dst
			}
		}
		return append(dst, src...)

	case "copy": // copy([]T, []T) int or copy([]byte, string) int
		var src []value
		switch s := args[1].(type) {
		case string, symstr:
			src = strBytes(s)
		case []value:
			src = s
		}
		dst := args[0].([]value)
		if len(src) > 0 {
			switch src[0].(type) {
			case structure, array:
				n := len(src)
				if len(dst) < n {
					n = len(dst)
				}
				tmp := make([]value, n)
				for i := 0; i < n; i++ {
					tmp[i] = copyVal(src[i])
				}
				return copy(dst, tmp)
			}
		}
		return copy(dst, src)

	case "close": // close(chan T)
		fr.m.chanClose(fr, args[0].(*channel))
		return nil

	case "delete": // delete(map[K]value, K)
		fr.mapDelete(args[0].(*omap), args[1])
		return nil

	case "clear":
		switch x := args[0].(type) {
		case *omap:
			if x != nil {
				x.entries = nil
				x.index = map[any]int{}
				x.live = 0
				x.symKeys = 0
			}
		case []value:
			if len(x) > 0 {
				et := fn.Type().(*types.Signature).Params().At(0).Type().Underlying().(*types.Slice).Elem()
				for i := range x {
					x[i] = zero(et)
				}
			}
		}
		return nil

	case "print", "println": // print(any, ...)
		return nil

	case "len":
		switch x := args[0].(type) {
		case string:
			return len(x)
		case symstr:
			return len(x.b)
		case array:
			return len(x)
		case *value:
			return len((*x).(array))
		case []value:
			return len(x)
		case *omap:
			return x.len()
		case *channel:
			if x == nil {
				return 0
			}
			return len(x.buf)
		default:
			panic(fmt.Sprintf("len: illegal operand: %T", x))
		}

	case "cap":
		switch x := args[0].(type) {
		case array:
			return cap(x)
		case *value:
			return len((*x).(array))
		case []value:
			return cap(x)
		case *channel:
			if x == nil {
				return 0
			}
			return x.cap
		default:
			panic(fmt.Sprintf("cap: illegal operand: %T", x))
		}

	case "min", "max":
		r := args[0]
		t := fn.Type().(*types.Signature).Params().At(0).Type()
		for _, a := range args[1:] {
			var c value
			if fn.Name() == "min" {
				c = fr.binop(token.LSS, t, a, r)
			} else {
				c = fr.binop(token.GTR, t, a, r)
			}
			switch c := c.(type) {
			case bool:
				if c {
					r = a
				}
			case sym:
				k := valueKind(r)
				r = mkval(fr.m.tt.Ite(c.t, fr.m.term(a), fr.m.term(r)), k)
			}
		}
		return r

	case "real":
		switch c := args[0].(type) {
		case complex64:
			return real(c)
		case complex128:
			return real(c)
		}
	case "imag":
		switch c := args[0].(type) {
		case complex64:
			return imag(c)
		case complex128:
			return imag(c)
		}
	case "complex":
		switch f := args[0].(type) {
		case float32:
			return complex(f, args[1].(float32))
		case float64:
			return complex(f, args[1].(float64))
		}

	case "panic":
		panic(targetPanic{v: args[0]})

	case "recover":
		return doRecover(fr)

	case "ssa:wrapnilchk":
		recv := args[0]
		if recv.(*value) == nil {
			recvType := args[1]
			methodName := args[2]
			rtPanic("value method %s.%s called using nil *%s pointer",
				recvType, methodName, recvType)
		}
		return recv

	case "ssa:deferstack":
		return &fr.defers

	// unsafe builtins
	case "SliceData":
		s := args[0].([]value)
		if cap(s) == 0 {
			return (*value)(nil)
		}
		return unsafe.SliceData(s)
	case "StringData":
		// pointer to immutable bytes: give a fresh backing array
		b := strBytes(args[0])
		if len(b) == 0 {
			return (*value)(nil)
		}
		c := append([]value(nil), b...)
		return &c[0]
	case "Slice":
		n := fr.cint(args[1])
		switch p := args[0].(type) {
		case *value:
			if p == nil {
				if n != 0 {
					rtPanic("unsafe.Slice: ptr is nil and len is not zero")
				}
				return []value(nil)
			}
			return unsafe.Slice(p, int(n))
		}
	case "String":
		n := fr.cint(args[1])
		switch p := args[0].(type) {
		case *value:
			if p == nil || n == 0 {
				return ""
			}
			return mkstr(unsafe.Slice(p, int(n)))
		}
	case "Add":
		unsupported("unsafe.Add")
	case "Sizeof", "Alignof", "Offsetof":
		if callInstr != nil && len(callInstr.Common().Args) == 1 {
			sz := types.StdSizes{WordSize: 8, MaxAlign: 8}
			t := callInstr.Common().Args[0].Type()
			if fn.Name() == "Sizeof" {
				return uintptr(sz.Sizeof(t))
			}
			if fn.Name() == "Alignof" {
				return uintptr(sz.Alignof(t))
			}
		}
		unsupported("unsafe.%s", fn.Name())
	}

	panic(engineError{"unknown built-in: " + fn.Name()})
}

func (fr *frame) rangeIter(x value) iter {
	switch x := x.(type) {
	case *omap:
		return fr.m.newMapIter(fr, x)
	case string:
		return &stringIter{s: symstr{b: strBytes(x)}}
	case symstr:
		return &stringIter{s: x}
	}
	panic(fmt.Sprintf("cannot range over %T", x))
}

func (it *stringIter) next(fr *frame) tuple {
	if it.i >= len(it.s.b) {
		return tuple{false, nil, nil}
	}
	b0 := it.s.b[it.i]
	start := it.i
	if s, ok := b0.(sym); ok {
		// ASCII fast path decided by the solver
		isASCII := fr.m.tt.Bin(OpULt, s.t, fr.m.tt.Const(0x80, 8))
		if fr.branch(isASCII) {
			it.i++
			return tuple{true, start, mkval(fr.m.tt.ZExt(s.t, 32), types.Int32)}
		}
	}
	// multi-byte: run the real unicode/utf8.DecodeRuneInString on the (symbolic) tail
	if pkg := fr.m.prog.prog.ImportedPackage("unicode/utf8"); pkg != nil {
		if dec := pkg.Func("DecodeRuneInString"); dec != nil {
			end := it.i + 4
			if end > len(it.s.b) {
				end = len(it.s.b)
			}
			r := fr.m.callSSA(fr, token.NoPos, dec, []value{mkstr(it.s.b[it.i:end])}, nil).(tuple)
			size := int(fr.cint(r[1]))
			it.i += size
			return tuple{true, start, r[0]}
		}
	}
	// fallback: decode up to 4 bytes concretely
	var buf [4]byte
	n := 0
	for n < 4 && it.i+n < len(it.s.b) {
		bv := it.s.b[it.i+n]
		if s, ok := bv.(sym); ok {
			bv = fr.m.concretize(fr, s)
		}
		buf[n] = bv.(uint8)
		n++
		if n == 1 && buf[0] < 0x80 {
			break
		}
		if utf8.FullRune(buf[:n]) {
			break
		}
	}
	r, size := utf8.DecodeRune(buf[:n])
	it.i += size
	return tuple{true, start, r}
}

// ---------------------------------------------------------------- conv

func (fr *frame) conv(t_dst, t_src types.Type, x value) value {
	m := fr.m
	ut_src := t_src.Underlying()
	ut_dst := t_dst.Underlying()

	// unsafe.Pointer conversions
	if b, ok := ut_dst.(*types.Basic); ok && b.Kind() == types.UnsafePointer {
		switch p := x.(type) {
		case *value:
			if p == nil {
				return uptr{}
			}
			return uptr{p: p, t: t_src}
		case uptr:
			return p
		case symptr:
			unsupported("unsafe.Pointer of symbolic element address")
		default:
			// uintptr -> unsafe.Pointer
			return uptr{opaque: true}
		}
	}
	if b, ok := ut_src.(*types.Basic); ok && b.Kind() == types.UnsafePointer {
		up, _ := x.(uptr)
		switch ut_dst.(type) {
		case *types.Pointer:
			if up.p == nil {
				if up.opaque {
					unsupported("deref of opaque unsafe.Pointer @ %s", fr.stack())
				}
				return (*value)(nil)
			}
			return fr.castPointer(up, t_dst)
		case *types.Basic: // uintptr
			if up.p == nil {
				return uintptr(0)
			}
			return uintptr(uintptr(ptrIdent(up.p)))
		}
	}

	switch x := x.(type) {
	case sym:
		dk := basicKind(t_dst)
		if dk == types.Invalid {
			unsupported("conv of symbolic value to %s", t_dst)
		}
		switch dk {
		case types.String:
			unsupported("string(symbolic rune)")
		case types.Float32, types.Float64:
			// floats are concrete-only: the result is an opaque value; using it in arithmetic or a
			// comparison makes the path inconclusive, merely storing/copying it does not
			return opaqueFloat{}
		}
		w := kindWidth(dk)
		var t *Term
		if w <= x.t.w {
			t = m.tt.ZExt(x.t, w) // truncation
		} else if kindSigned(x.k) {
			t = m.tt.SExt(x.t, w)
		} else {
			t = m.tt.ZExt(x.t, w)
		}
		return mkval(t, dk)
	case symstr:
		switch ut_dst := ut_dst.(type) {
		case *types.Slice:
			switch ut_dst.Elem().Underlying().(*types.Basic).Kind() {
			case types.Byte:
				return append(make([]value, 0, len(x.b)), x.b...)
			case types.Rune:
				var res []value
				it := &stringIter{s: x}
				for {
					tup := it.next(fr)
					if !tup[0].(bool) {
						break
					}
					res = append(res, tup[2])
				}
				return res
			}
		case *types.Basic:
			if ut_dst.Kind() == types.String {
				return x
			}
		}
		unsupported("conv symstr -> %s", t_dst)
	case []value:
		if sl, ok := ut_src.(*types.Slice); ok {
			if b, ok := sl.Elem().Underlying().(*types.Basic); ok && b.Kind() == types.Byte {
				if _, ok := ut_dst.(*types.Basic); ok {
					return mkstr(x)
				}
			}
			if b, ok := sl.Elem().Underlying().(*types.Basic); ok && b.Kind() == types.Rune {
				for i, e := range x {
					if s, ok := e.(sym); ok {
						x[i] = m.concretize(fr, s)
					}
				}
			}
		}
	case string:
		if ut_dst, ok := ut_dst.(*types.Slice); ok {
			if ut_dst.Elem().Underlying().(*types.Basic).Kind() == types.Byte {
				res := make([]value, len(x))
				for i := 0; i < len(x); i++ {
					res[i] = x[i]
				}
				return res
			}
		}
	case *value:
		// pointer -> pointer conversion of identical underlying types (ChangeType normally)
		if _, ok := ut_dst.(*types.Pointer); ok {
			return x
		}
	}
	return convC(t_dst, t_src, x)
}

// castPointer reinterprets an unsafe.Pointer as *T for the view idioms the repo uses.
func (fr *frame) castPointer(up uptr, t_dst types.Type) value {
	srcElem := mustDeref(up.t)
	dstElem := mustDeref(t_dst)
	if types.Identical(srcElem, dstElem) || types.Identical(srcElem.Underlying(), dstElem.Underlying()) {
		return up.p
	}
	p := up.p.(*value)
	// *[]byte -> *string  (unsafebytes.BytesToString)
	if sl, ok := srcElem.Underlying().(*types.Slice); ok {
		if b, ok := sl.Elem().Underlying().(*types.Basic); ok && b.Kind() == types.Byte {
			if db, ok := dstElem.Underlying().(*types.Basic); ok && db.Kind() == types.String {
				var cell value = mkstr((*p).([]value))
				return &cell
			}
		}
	}
	// *string -> *[]byte (unsafebytes.StringToBytes): fresh slice (read-only use assumed)
	if sb, ok := srcElem.Underlying().(*types.Basic); ok && sb.Kind() == types.String {
		if sl, ok := dstElem.Underlying().(*types.Slice); ok {
			if b, ok := sl.Elem().Underlying().(*types.Basic); ok && b.Kind() == types.Byte {
				bs := strBytes(*p)
				var cell value = append(make([]value, 0, len(bs)), bs...)
				if len(bs) == 0 {
					cell = []value(nil)
				}
				return &cell
			}
		}
	}
	// *T -> *[N]byte etc: not modelled
	// struct pointer -> pointer to its first field type
	if st, ok := srcElem.Underlying().(*types.Struct); ok && st.NumFields() > 0 {
		if types.Identical(st.Field(0).Type(), dstElem) {
			return &(*p).(structure)[0]
		}
	}
	unsupported("unsafe pointer cast %s -> %s @ %s", up.t, t_dst, fr.stack())
	return nil
}

// sliceToArrayPointer converts the value x of type slice to type t_dst
// a pointer to array and returns the result.
func sliceToArrayPointer(t_dst, t_src types.Type, x value) value {
	if _, ok := t_src.Underlying().(*types.Slice); ok {
		if ptr, ok := t_dst.Underlying().(*types.Pointer); ok {
			if arr, ok := ptr.Elem().Underlying().(*types.Array); ok {
				x := x.([]value)
				if arr.Len() > int64(len(x)) {
					rtPanic("runtime error: cannot convert slice with length %d to array or pointer to array with length %d", len(x), arr.Len())
				}
				if x == nil {
					return zero(t_dst)
				}
				v := value(array(x[:arr.Len():arr.Len()]))
				return &v
			}
		}
	}
	panic(fmt.Sprintf("unsupported conversion: %s  -> %s, dynamic type %T", t_src, t_dst, x))
}
