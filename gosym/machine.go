// Portions derived from golang.org/x/tools/go/ssa/interp (BSD-style license,
// Copyright 2013 The Go Authors).

package main

// The symbolic machine: one per worker. It interprets SSA with concrete heap
// shape and (possibly) symbolic scalars, forking at symbolic decisions. A path
// is identified by its decision trail; exploring a path means re-running the
// harness with that trail as a prefix.

import (
	"os"
	"fmt"
	"go/token"
	"go/types"
	"runtime"
	"slices"
	"sort"
	"strings"
	"sync"

	"golang.org/x/tools/go/ssa"
)

var profileSteps map[*ssa.Function]int // debugging (single worker only)
var forkSites map[string]int

type continuation int

const (
	kNext continuation = iota
	kReturn
	kJump
)

// Decision is one entry of a path's trail.
type Decision struct {
	Kind uint8    `json:"k"`           // 0 branch, 1 choice, 2 value
	Out  uint64   `json:"o"`           // branch: 0/1; choice: index; value: chosen bits
	Open bool     `json:"open,omitempty"` // value decision still to be made (only last entry of a prefix)
	Excl []uint64 `json:"x,omitempty"` // value decision: values excluded so far
}

const (
	dBranch = 0
	dChoice = 1
	dValue  = 2
)

type fnInfo struct {
	fn        *ssa.Function
	slot      map[ssa.Value]int32
	nslots    int
	intrinsic intrinsicFn
	pkg       *ssa.Package
	name      string
	mergeable int8 // 0 unknown, 1 yes, -1 no
	lazy      map[ssa.Instruction]bool // loads evaluated in gc order (after the calls of their statement)
}

type deferred struct {
	fn    value
	args  []value
	instr *ssa.Defer
	tail  *deferred
}

type frame struct {
	m                *Machine
	g                *G
	caller           *frame
	fn               *ssa.Function
	info             *fnInfo
	block, prevBlock *ssa.BasicBlock
	env              []value
	defers           *deferred
	result           value
	panicking        bool
	panic            any
	phitemps         []value
	callPos          token.Pos
	pending          []ssa.Instruction // lazy instructions not yet evaluated
	cur              ssa.Instruction   // instruction being executed (for site attribution)
}

func (fr *frame) get(key ssa.Value) value {
	switch key := key.(type) {
	case nil:
		return nil
	case *ssa.Function:
		return key
	case *ssa.Builtin:
		return key
	case *ssa.Const:
		return fr.m.prog.constVal(key)
	case *ssa.Global:
		return fr.m.global(key)
	}
	if i, ok := fr.info.slot[key]; ok {
		return fr.env[i]
	}
	panic(engineError{fmt.Sprintf("get: no value for %T: %v in %s", key, key.Name(), fr.fn)})
}

func (fr *frame) set(key ssa.Value, v value) {
	fr.env[fr.info.slot[key]] = v
}

func (fr *frame) runDefer(d *deferred) {
	var ok bool
	defer func() {
		if !ok {
			p := recover()
			if isEngineAbort(p) {
				panic(p)
			}
			// Deferred call created a new state of panic.
			fr.panicking = true
			fr.panic = p
		}
	}()
	fr.m.call(fr, d.instr.Pos(), d.fn, d.args, nil)
	ok = true
}

func isEngineAbort(p any) bool {
	switch p.(type) {
	case engineError, pathAbort:
		return true
	case runtime.Error:
		return true // host runtime error inside the engine = engine bug; never visible to the target
	}
	return false
}

func (fr *frame) runDefers() {
	for d := fr.defers; d != nil; d = d.tail {
		fr.runDefer(d)
	}
	fr.defers = nil
	if fr.panicking {
		panic(fr.panic) // new panic, or still panicking
	}
}

// visitInstr interprets a single ssa.Instruction within the activation record frame.
func visitInstr(fr *frame, instr ssa.Instruction) continuation {
	m := fr.m
	switch instr := instr.(type) {
	case *ssa.DebugRef:
		// no-op

	case *ssa.UnOp:
		fr.set(instr, fr.unop(instr, fr.get(instr.X)))

	case *ssa.BinOp:
		fr.set(instr, fr.binop(instr.Op, instr.X.Type(), fr.get(instr.X), fr.get(instr.Y)))

	case *ssa.Call:
		fn, args := fr.prepareCall(&instr.Call)
		fr.set(instr, m.call(fr, instr.Pos(), fn, args, instr))

	case *ssa.ChangeInterface:
		fr.set(instr, fr.get(instr.X))

	case *ssa.ChangeType:
		fr.set(instr, fr.get(instr.X)) // (can't fail)

	case *ssa.Convert:
		fr.set(instr, fr.conv(instr.Type(), instr.X.Type(), fr.get(instr.X)))

	case *ssa.SliceToArrayPointer:
		fr.set(instr, sliceToArrayPointer(instr.Type(), instr.X.Type(), fr.get(instr.X)))

	case *ssa.MultiConvert:
		fr.set(instr, fr.conv(instr.Type(), instr.X.Type(), fr.get(instr.X)))

	case *ssa.MakeInterface:
		fr.set(instr, iface{t: instr.X.Type(), v: fr.get(instr.X)})

	case *ssa.Extract:
		fr.set(instr, fr.get(instr.Tuple).(tuple)[instr.Index])

	case *ssa.Slice:
		fr.set(instr, fr.slice(instr, fr.get(instr.X), fr.get(instr.Low), fr.get(instr.High), fr.get(instr.Max)))

	case *ssa.Return:
		switch len(instr.Results) {
		case 0:
		case 1:
			fr.result = fr.get(instr.Results[0])
		default:
			res := make([]value, 0, len(instr.Results))
			for _, r := range instr.Results {
				res = append(res, fr.get(r))
			}
			fr.result = tuple(res)
		}
		fr.block = nil
		return kReturn

	case *ssa.RunDefers:
		fr.runDefers()

	case *ssa.Panic:
		panic(targetPanic{v: fr.get(instr.X), stack: fr.stack()})

	case *ssa.Send:
		m.chanSend(fr, fr.get(instr.Chan).(*channel), fr.get(instr.X))

	case *ssa.Store:
		addr := fr.get(instr.Addr)
		switch p := addr.(type) {
		case *value:
			if p == nil {
				rtPanic("runtime error: invalid memory address or nil pointer dereference")
			}
			m.noteWrite(fr, p)
			store(mustDeref(instr.Addr.Type()), p, fr.get(instr.Val))
		case symptr:
			i := asInt64(m.concretize(fr, p.idx))
			store(mustDeref(instr.Addr.Type()), &p.base[i], fr.get(instr.Val))
		default:
			unsupported("store through %T", addr)
		}

	case *ssa.If:
		succ := 1
		switch c := fr.get(instr.Cond).(type) {
		case bool:
			if c {
				succ = 0
			}
		case sym:
			if forkSites != nil {
				before := m.res.NewItems
				if fr.branch(c.t) {
					succ = 0
				}
				if m.res.NewItems > before {
					p := m.prog.fset.Position(instr.Cond.Pos())
					forkSites[fmt.Sprintf("%s %s:%d", fr.fn.Name(), shortPath(p.Filename), p.Line)]++
				}
			} else if fr.branch(c.t) {
				succ = 0
			}
		}
		fr.prevBlock, fr.block = fr.block, fr.block.Succs[succ]
		return kJump

	case *ssa.Jump:
		fr.prevBlock, fr.block = fr.block, fr.block.Succs[0]
		return kJump

	case *ssa.Defer:
		fn, args := fr.prepareCall(&instr.Call)
		defers := &fr.defers
		if into := fr.get(instr.DeferStack); into != nil {
			defers = into.(**deferred)
		}
		*defers = &deferred{
			fn:    fn,
			args:  args,
			instr: instr,
			tail:  *defers,
		}

	case *ssa.Go:
		fn, args := fr.prepareCall(&instr.Call)
		m.spawn(fr, instr.Pos(), fn, args)

	case *ssa.MakeChan:
		fr.set(instr, m.newChan(int(fr.cint(fr.get(instr.Size))), instr.Type().Underlying().(*types.Chan).Elem()))

	case *ssa.Alloc:
		addr := new(value)
		*addr = zero(mustDeref(instr.Type()))
		fr.set(instr, addr)

	case *ssa.MakeSlice:
		c := fr.cint(fr.get(instr.Cap))
		l := fr.cint(fr.get(instr.Len))
		if l < 0 || l > 1<<28 {
			rtPanic("runtime error: makeslice: len out of range")
		}
		if c < l || c > 1<<28 {
			rtPanic("runtime error: makeslice: cap out of range")
		}
		slice := make([]value, c)
		tElt := instr.Type().Underlying().(*types.Slice).Elem()
		if isScalarType(tElt) {
			z := zero(tElt)
			for i := range slice {
				slice[i] = z
			}
		} else {
			for i := range slice {
				slice[i] = zero(tElt)
			}
		}
		fr.set(instr, slice[:l])

	case *ssa.MakeMap:
		fr.set(instr, makeMap(instr.Type().Underlying().(*types.Map).Key()))

	case *ssa.Range:
		fr.set(instr, fr.rangeIter(fr.get(instr.X)))

	case *ssa.Next:
		fr.set(instr, fr.get(instr.Iter).(iter).next(fr))

	case *ssa.FieldAddr:
		p := fr.get(instr.X).(*value)
		if p == nil {
			rtPanic("runtime error: invalid memory address or nil pointer dereference")
		}
		fr.set(instr, &(*p).(structure)[instr.Field])

	case *ssa.Field:
		fr.set(instr, copyVal(fr.get(instr.X).(structure)[instr.Field]))

	case *ssa.IndexAddr:
		x := fr.get(instr.X)
		idx := fr.get(instr.Index)
		var base []value
		switch x := x.(type) {
		case []value:
			base = x
		case *value: // *array
			if x == nil {
				rtPanic("runtime error: invalid memory address or nil pointer dereference")
			}
			base = (*x).(array)
		default:
			panic(fmt.Sprintf("unexpected x type in IndexAddr: %T", x))
		}
		if s, ok := idx.(sym); ok {
			fr.boundsCheck(s, len(base))
			fr.set(instr, symptr{base: base, idx: s})
		} else {
			i := asInt64(idx)
			if i < 0 || i >= int64(len(base)) {
				rtPanic("runtime error: index out of range [%d] with length %d", i, len(base))
			}
			fr.set(instr, &base[i])
		}

	case *ssa.Index:
		x := fr.get(instr.X)
		idx := fr.get(instr.Index)
		var base []value
		switch x := x.(type) {
		case array:
			base = x
		case string:
			if s, ok := idx.(sym); ok {
				base = strBytes(x)
				_ = s
			} else {
				i := asInt64(idx)
				if i < 0 || i >= int64(len(x)) {
					rtPanic("runtime error: index out of range [%d] with length %d", i, len(x))
				}
				fr.set(instr, x[i])
				return kNext
			}
		case symstr:
			base = x.b
		default:
			panic(fmt.Sprintf("unexpected x type in Index: %T", x))
		}
		if s, ok := idx.(sym); ok {
			fr.boundsCheck(s, len(base))
			fr.set(instr, fr.loadSymPtr(instr.Type(), symptr{base: base, idx: s}))
		} else {
			i := asInt64(idx)
			if i < 0 || i >= int64(len(base)) {
				rtPanic("runtime error: index out of range [%d] with length %d", i, len(base))
			}
			fr.set(instr, copyVal(base[i]))
		}

	case *ssa.Lookup:
		fr.set(instr, fr.lookup(instr, fr.get(instr.X), fr.get(instr.Index)))

	case *ssa.MapUpdate:
		mp := fr.get(instr.Map).(*omap)
		if mp == nil {
			rtPanic("assignment to entry in nil map")
		}
		fr.mapUpdate(mp, fr.get(instr.Key), fr.get(instr.Value))

	case *ssa.TypeAssert:
		fr.set(instr, typeAssert(instr, fr.get(instr.X).(iface)))

	case *ssa.MakeClosure:
		bindings := make([]value, 0, len(instr.Bindings))
		for _, binding := range instr.Bindings {
			bindings = append(bindings, fr.get(binding))
		}
		fr.set(instr, &closure{instr.Fn.(*ssa.Function), bindings})

	case *ssa.Phi:
		panic("unreachable: phis are processed at block entry")

	case *ssa.Select:
		fr.set(instr, m.chanSelect(fr, instr))

	default:
		panic(engineError{fmt.Sprintf("unexpected instruction: %T", instr)})
	}
	return kNext
}

// boundsCheck forks on 0 <= idx < n; the out-of-range side is a target panic.
func (fr *frame) boundsCheck(idx sym, n int) {
	tt := fr.m.tt
	// compare in 64 bits so that the length always fits
	var wide *Term
	if kindSigned(idx.k) {
		wide = tt.SExt(idx.t, 64)
	} else {
		wide = tt.ZExt(idx.t, 64)
	}
	inRange := tt.Bin(OpULt, wide, tt.Const(uint64(n), 64))
	if !fr.branch(inRange) {
		rtPanic("runtime error: index out of range [symbolic] with length %d", n)
	}
}

func (fr *frame) prepareCall(call *ssa.CallCommon) (fn value, args []value) {
	v := fr.get(call.Value)
	if call.Method == nil {
		// Function call.
		fn = v
		args = make([]value, 0, len(call.Args))
	} else {
		// Interface method invocation.
		recv := v.(iface)
		if recv.t == nil {
			rtPanic("runtime error: invalid memory address or nil pointer dereference (method %s invoked on nil interface)", call.Method.Name())
		}
		f := fr.m.prog.lookupMethod(recv.t, call.Method)
		if f == nil {
			panic(engineError{fmt.Sprintf("method set for dynamic type %v does not contain %s", recv.t, call.Method)})
		}
		fn = f
		args = make([]value, 0, len(call.Args)+1)
		args = append(args, copyVal(recv.v))
	}
	for _, arg := range call.Args {
		args = append(args, fr.get(arg))
	}
	return
}

// call interprets a call to a function (function, builtin or closure).
func (m *Machine) call(caller *frame, callpos token.Pos, fn value, args []value, site ssa.CallInstruction) value {
	switch fn := fn.(type) {
	case *ssa.Function:
		if fn == nil {
			rtPanic("runtime error: invalid memory address or nil pointer dereference (call of nil func)")
		}
		return m.callSSA(caller, callpos, fn, args, nil)
	case *closure:
		return m.callSSA(caller, callpos, fn.Fn, args, fn.Env)
	case *ssa.Builtin:
		return caller.callBuiltin(fn, args, site)
	case *nativeFn:
		return fn.f(caller, args)
	}
	panic(engineError{fmt.Sprintf("cannot call %T", fn)})
}

func (fr *frame) stack() string {
	var sb strings.Builder
	n := 0
	for f := fr; f != nil && n < 12; f = f.caller {
		fmt.Fprintf(&sb, "%s", f.fn.String())
		if f.caller != nil && f.callPos.IsValid() {
			p := fr.m.prog.fset.Position(f.callPos)
			fmt.Fprintf(&sb, " (called at %s:%d)", shortPath(p.Filename), p.Line)
		}
		sb.WriteString(" <- ")
		n++
	}
	return sb.String()
}

func shortPath(p string) string {
	if i := strings.Index(p, "/repo/"); i >= 0 {
		return p[i+6:]
	}
	if i := strings.LastIndex(p, "/src/"); i >= 0 {
		return p[i+5:]
	}
	return p
}

func (m *Machine) callSSA(caller *frame, callpos token.Pos, fn *ssa.Function, args []value, env []value) value {
	info := m.prog.info(fn)
	if fn.Synthetic == "package initializer" {
		if m.initDirect == fn {
			m.initDirect = nil
		} else {
			// an init calling its imports' inits: packages are initialised lazily
			// (on first use of one of their globals or functions) instead
			return nil
		}
	} else if info.pkg != nil {
		m.ensureInit(info.pkg, caller)
	}
	var g *G
	if caller != nil {
		g = caller.g
	} else {
		g = m.cur
	}
	fr := &frame{m: m, g: g, caller: caller, fn: fn, info: info, callPos: callpos}
	if info.intrinsic != nil {
		return info.intrinsic(fr, args)
	}
	if info.mergeable >= 0 && caller != nil && !m.opts.NoMerge {
		for _, a := range args {
			if _, ok := a.(sym); ok {
				if m.prog.mergeable(fn, map[*ssa.Function]bool{}) {
					m.funcsSeen[fn] = struct{}{}
					return m.evalMerged(caller, fn, args)
				}
				break
			}
		}
	}
	if fn.Blocks == nil {
		panic(engineError{"no code for function: " + info.name})
	}
	if fn.TypeParams().Len() > 0 && len(fn.TypeArgs()) == 0 {
		panic(engineError{"uninstantiated generic function " + info.name})
	}
	m.depth++
	if m.depth > 2000 {
		panic(engineError{"interpreter call depth exceeded in " + info.name})
	}
	m.funcsSeen[fn] = struct{}{}
	fr.env = make([]value, info.nslots)
	fr.block = fn.Blocks[0]
	for i, p := range fn.Params {
		fr.env[info.slot[p]] = args[i]
	}
	for i, fv := range fn.FreeVars {
		fr.env[info.slot[fv]] = env[i]
	}
	for fr.block != nil {
		runFrame(fr)
	}
	m.depth--
	return fr.result
}

func runFrame(fr *frame) {
	defer func() {
		if fr.block == nil {
			return // normal return
		}
		p := recover()
		if isEngineAbort(p) {
			if re, ok := p.(runtime.Error); ok {
				// convert a host runtime error into an engine error with context once
				buf := make([]byte, 4096)
				buf = buf[:runtime.Stack(buf, false)]
				panic(engineError{fmt.Sprintf("host runtime error in engine: %v\n  target stack: %s\n%s", re, fr.stack(), buf)})
			}
			panic(p)
		}
		if tp, ok := p.(targetPanic); ok && tp.stack == "" {
			tp.stack = fr.stack()
			p = tp
		}
		fr.panicking = true
		fr.panic = p
		fr.m.depthAt(fr)
		fr.runDefers()
		fr.block = fr.fn.Recover
		if fr.block == nil {
			// function without named results: zero results after recovery
			fr.result = zeroResults(fr.fn)
		}
	}()

	m := fr.m
	for {
		nonPhis := executePhis(fr)
		if profileSteps != nil {
			profileSteps[fr.fn] += len(nonPhis)
			m.curFn = fr.fn
		}
		for _, instr := range nonPhis {
			m.steps++
			if m.steps > m.budget {
				panic(pathAbort{"budget"})
			}
			if lz := fr.info.lazy; lz != nil {
				if lz[instr] {
					fr.pending = append(fr.pending, instr)
					continue
				}
				if len(fr.pending) > 0 {
					if forcesAll(instr) {
						fr.forcePending(nil)
					} else {
						fr.forcePending(instr)
					}
				}
			}
			fr.cur = instr
			if visitInstr(fr, instr) == kReturn {
				return
			}
		}
	}
}

func zeroResults(fn *ssa.Function) value {
	res := fn.Signature.Results()
	switch res.Len() {
	case 0:
		return nil
	case 1:
		return zero(res.At(0).Type())
	}
	return zero(res)
}

func (m *Machine) depthAt(fr *frame) {
	// recompute depth after a panic unwound several frames
	d := 0
	for f := fr; f != nil; f = f.caller {
		d++
	}
	m.depth = d
}

func executePhis(fr *frame) []ssa.Instruction {
	firstNonPhi := -1
	for i, instr := range fr.block.Instrs {
		if _, ok := instr.(*ssa.Phi); !ok {
			firstNonPhi = i
			break
		}
	}
	nonPhis := fr.block.Instrs[firstNonPhi:]
	if firstNonPhi > 0 {
		phis := fr.block.Instrs[:firstNonPhi]
		predIndex := slices.Index(fr.block.Preds, fr.prevBlock)
		fr.phitemps = fr.phitemps[:0]
		for _, phi := range phis {
			phi := phi.(*ssa.Phi)
			fr.phitemps = append(fr.phitemps, fr.get(phi.Edges[predIndex]))
		}
		for i, phi := range phis {
			fr.set(phi.(*ssa.Phi), fr.phitemps[i])
		}
	}
	return nonPhis
}

// doRecover implements the recover() built-in.
func doRecover(caller *frame) value {
	if caller != nil && !caller.panicking &&
		caller.caller != nil && caller.caller.panicking {
		p := caller.caller.panic
		switch p := p.(type) {
		case targetPanic:
			caller.caller.panicking = false
			caller.caller.panic = nil
			return p.v
		case goexitPanic:
			return iface{}
		default:
			panic(engineError{fmt.Sprintf("unexpected panic type %T in target call to recover()", p)})
		}
	}
	return iface{}
}

type goexitPanic struct{}

// ---------------------------------------------------------------- Program (shared, read-only after load)

type Program struct {
	prog   *ssa.Program
	fset   *token.FileSet
	infos  syncMap[*ssa.Function, *fnInfo]
	consts syncMap[*ssa.Const, value]
	noInit func(path string) bool
	embeds map[types.Object][]byte
	mcache syncMap[methodKey, *ssa.Function]
}

type methodKey struct {
	t    types.Type
	name string
}

func (p *Program) constVal(c *ssa.Const) value {
	if v, ok := p.consts.Load(c); ok {
		return v
	}
	v := constValue(c)
	switch v.(type) {
	case structure, array:
		return v // aggregates are mutable boxes: never shared
	}
	p.consts.Store(c, v)
	return v
}

func (p *Program) lookupMethod(typ types.Type, meth *types.Func) *ssa.Function {
	k := methodKey{typ, meth.Id()}
	if f, ok := p.mcache.Load(k); ok {
		return f
	}
	f := p.prog.LookupMethod(typ, meth.Pkg(), meth.Name())
	p.mcache.Store(k, f)
	return f
}

func (p *Program) info(fn *ssa.Function) *fnInfo {
	if fi, ok := p.infos.Load(fn); ok {
		return fi
	}
	fi := &fnInfo{fn: fn, slot: map[ssa.Value]int32{}, name: fn.String()}
	fi.pkg = fn.Package()
	if fi.pkg == nil {
		// methods of instantiated generics, wrappers, closures: find via origin / parent
		f := fn
		for f != nil && f.Package() == nil {
			if f.Origin() != nil {
				f = f.Origin()
			} else if f.Parent() != nil {
				f = f.Parent()
			} else {
				break
			}
		}
		if f != nil {
			fi.pkg = f.Package()
		}
		if fi.pkg == nil && fn.Object() != nil && fn.Object().Pkg() != nil {
			fi.pkg = p.prog.Package(fn.Object().Pkg())
		}
	}
	n := int32(0)
	for _, v := range fn.Params {
		fi.slot[v] = n
		n++
	}
	for _, v := range fn.FreeVars {
		fi.slot[v] = n
		n++
	}
	for _, b := range fn.Blocks {
		for _, ins := range b.Instrs {
			if v, ok := ins.(ssa.Value); ok {
				fi.slot[v] = n
				n++
			}
		}
	}
	fi.nslots = int(n)
	fi.lazy = computeLazy(fn)
	if os.Getenv("GOSYM_DEBUGLAZY") != "" && fi.lazy != nil {
		for _, b := range fn.Blocks {
			for _, ins := range b.Instrs {
				if fi.lazy[ins] {
					if v, ok := ins.(ssa.Value); ok {
						fmt.Fprintf(os.Stderr, "LAZY %s: %s = %s\n", fn.Name(), v.Name(), ins)
					}
				}
			}
		}
	}
	fi.intrinsic = findIntrinsic(fn, fi.name)
	p.infos.Store(fn, fi)
	return fi
}

// ---------------------------------------------------------------- Machine

type Violation struct {
	Label   string   `json:"label"`
	Kind    string   `json:"kind"` // assert | panic | deadlock | race
	Detail  string   `json:"detail,omitempty"`
	Model   Model    `json:"model"`
	Nondets []NDVal  `json:"nondets"`
	Trail   []Decision `json:"-"`
	Sched   []int    `json:"sched,omitempty"`
	Obs     []string `json:"observed,omitempty"`
	Gates   []GateStep `json:"gates,omitempty"`
}

type NDVal struct {
	Name string `json:"n"`
	W    uint8  `json:"w"`
	V    uint64 `json:"v"`
}

type PathResult struct {
	Trail        []Decision
	Status       string // ok | assume-false | inconclusive | panic-expected ...
	Reason       string
	Steps        int64
	Covers       map[string]int
	Violations   []Violation
	Asserts      int
	SolverChecks int
	NewItems     int
	Obligations  int
	UsedUF       bool
	Concurrent   bool
	Nondets      []NDVal
	Outputs      []string
}

type WorkItem struct {
	Trail []Decision
	Model Model
}

type Machine struct {
	prog    *Program
	globals map[*ssa.Global]*value
	inited  map[*ssa.Package]bool
	stdGlobals map[*ssa.Global]*value
	stdInited  map[*ssa.Package]bool
	tt      *TermTable
	solver  *Solver
	opts    *Options

	// path state
	pc        []*Term
	prevPC    []*Term // path condition of the previous path run by this worker
	prevTrail []Decision
	prevPCAt  []int // len(pc) just before decision i of the previous path
	pcAt      []int
	shared    int // number of leading pc terms assumed already asserted in the solver
	epoch     int
	synced    int
	trail     []Decision
	dpos      int
	model     Model
	evalCache map[int32]uint64
	steps     int64
	budget    int64
	depth     int
	ndCount   int
	ndVars    []*Term
	pathVars  []*Term
	res       *PathResult
	emit      func(WorkItem)
	funcsSeen map[*ssa.Function]struct{}
	preempts  int
	timers     []*timerRec
	mapOrderOn bool // explore map iteration orders (rotations)
	mapBudget  int  // non-default rotations left on this path (-1 unlimited)
	schedFixed bool // scheduler runs goroutines to completion in a fixed order, no decisions

	// goroutines
	gs      []*G
	cur     *G
	abortCh chan struct{}
	mutexes map[*value]*mutexState
	aux     map[any]any // per-path scratch for intrinsics
	sched   []int
	ndLog   []ndEntry
	obsLog  []obsEntry
	clock   int64
	chanSeq int
	usedUF  bool
	endCh   chan struct{}
	endOnce sync.Once
	end     pathEnd
	rootFn  *ssa.Function
	initDirect *ssa.Function
	curFn      *ssa.Function
	fixedPos   int
	termLabel  string
	gates      []GateStep
	hostWG  sync.WaitGroup
}

type Options struct {
	Budget       int64
	MaxPreempt   int // -1 unbounded
	SolverKind   string
	TimeoutMs    int
	MapOrder     bool
	Trace        bool
	MaxDepth     int
	PoolReuse    bool
	NoMerge      bool
	Fixed        []uint64
}

func NewMachine(p *Program, opts *Options) (*Machine, error) {
	s, err := NewSolver(opts.SolverKind, opts.TimeoutMs)
	if err != nil {
		return nil, err
	}
	return &Machine{prog: p, solver: s, opts: opts, funcsSeen: map[*ssa.Function]struct{}{},
		stdGlobals: map[*ssa.Global]*value{}, stdInited: map[*ssa.Package]bool{}}, nil
}

// isStdPkg: standard-library packages. Their globals (tables, error values) are initialised
// once per worker and kept across paths; packages of the repository and third-party modules
// are re-initialised on every path.
func isStdPkg(path string) bool {
	i := strings.IndexByte(path, '/')
	first := path
	if i >= 0 {
		first = path[:i]
	}
	return !strings.Contains(first, ".")
}

func (m *Machine) global(g *ssa.Global) *value {
	if p, ok := m.globals[g]; ok {
		return p
	}
	if p, ok := m.stdGlobals[g]; ok {
		return p
	}
	m.ensureInit(g.Pkg, nil)
	if p, ok := m.globals[g]; ok {
		return p
	}
	if p, ok := m.stdGlobals[g]; ok {
		return p
	}
	cell := zero(mustDeref(g.Type()))
	p := &cell
	m.globals[g] = p
	return p
}

func (m *Machine) ensureInit(pkg *ssa.Package, caller *frame) {
	if m.inited[pkg] || m.stdInited[pkg] {
		return
	}
	std := isStdPkg(pkg.Pkg.Path())
	gl := m.globals
	if std {
		m.stdInited[pkg] = true
		gl = m.stdGlobals
	} else {
		m.inited[pkg] = true
	}
	// allocate storage for all globals of the package
	for _, mem := range pkg.Members {
		if g, ok := mem.(*ssa.Global); ok {
			if _, ok := gl[g]; !ok {
				cell := zero(mustDeref(g.Type()))
				if data, ok := m.prog.embeds[g.Object()]; ok {
					if _, isSlice := mustDeref(g.Type()).Underlying().(*types.Slice); isSlice {
						bs := make([]value, len(data))
						for i, b := range data {
							bs[i] = b
						}
						cell = bs
					} else {
						cell = string(data)
					}
				}
				gl[g] = &cell
			}
		}
	}
	if m.prog.noInit(pkg.Pkg.Path()) {
		return
	}
	if pkg.Pkg.Path() == "errors" {
		// errors.init uses reflectlite; errors.Is/As are intrinsics, so only ErrUnsupported matters
		if g, ok := pkg.Members["ErrUnsupported"].(*ssa.Global); ok {
			if newFn := pkg.Func("New"); newFn != nil {
				*gl[g] = m.callSSA(caller, token.NoPos, newFn, []value{"unsupported operation"}, nil)
			}
		}
		return
	}
	initFn := pkg.Func("init")
	if initFn == nil || initFn.Blocks == nil {
		return
	}
	saved := m.depth
	savedSteps := m.steps
	m.initDirect = initFn
	m.callSSA(caller, token.NoPos, initFn, nil, nil)
	m.depth = saved
	if std {
		m.steps = savedSteps // one-off cost, not charged to the path budget
	}
}

// ---------------------------------------------------------------- path condition / decisions

func (m *Machine) evalTerm(t *Term) uint64 {
	return m.tt.Eval(t, m.model, m.evalCache)
}

func (m *Machine) setModel(md Model) {
	m.model = md
	m.evalCache = make(map[int32]uint64, 256)
}

func (m *Machine) addPC(t *Term) {
	if t.IsTrue() {
		return
	}
	idx := len(m.pc)
	m.pc = append(m.pc, t)
	// the first m.shared terms are assumed to be asserted already (prefix shared with the
	// previous path of this worker); verify, and fall back if execution diverged
	if idx < m.shared {
		if idx >= len(m.prevPC) || m.prevPC[idx] != t {
			m.solver.PopTo(idx)
			m.shared = idx
			m.synced = idx
		}
	}
}

func (m *Machine) syncSolver() {
	if m.shared > len(m.pc) {
		// the path is shorter than the shared region: drop the surplus assertions
		m.solver.PopTo(len(m.pc))
		m.shared = len(m.pc)
		m.synced = len(m.pc)
	}
	for m.synced < len(m.pc) {
		m.solver.Assert(m.tt, m.pc[m.synced])
		m.synced++
	}
}

// checkSat: is PC ∧ (lit or ¬lit) satisfiable?  On Sat the model is returned.
func (m *Machine) checkSat(lit *Term, neg bool) (SatResult, Model) {
	m.syncSolver()
	m.res.SolverChecks++
	r := m.solver.Check(m.tt, lit, neg)
	if r == Sat {
		md, err := m.solver.ModelFor(m.pathVars)
		if err != nil {
			return Unknown, nil
		}
		return r, md
	}
	return r, nil
}

func (m *Machine) inconclusive(reason string) {
	if m.res.Status == "ok" || m.res.Status == "" {
		m.res.Status = "inconclusive"
		m.res.Reason = reason
	}
}

func (m *Machine) childTrail(last Decision) []Decision {
	t := make([]Decision, len(m.trail)+1)
	copy(t, m.trail)
	t[len(m.trail)] = last
	return t
}

// branch decides a symbolic condition, forking if both sides are feasible.
func (fr *frame) branch(c *Term) bool {
	if c.op == OpConst {
		return c.val != 0
	}
	return fr.m.branch(c)
}

func (m *Machine) branch(c *Term) bool {
	tt := m.tt
	m.pcAt = append(m.pcAt, len(m.pc))
	if c.taint {
		m.inconclusive("control flow depends on an opaque formatted string")
	}
	if m.dpos < len(m.trail) {
		d := m.trail[m.dpos]
		if d.Kind != dBranch {
			panic(engineError{fmt.Sprintf("replay divergence: expected branch decision at %d, trail has kind %d", m.dpos, d.Kind)})
		}
		m.dpos++
		out := d.Out != 0
		if out {
			m.addPC(c)
		} else {
			m.addPC(tt.Not(c))
		}
		if (m.evalTerm(c) != 0) != out {
			panic(engineError{fmt.Sprintf("replay divergence: model disagrees with recorded branch %d", m.dpos-1)})
		}
		return out
	}
	if m.opts.MaxDepth > 0 && len(m.trail) >= m.opts.MaxDepth {
		panic(pathAbort{"decision-depth"})
	}
	cur := m.evalTerm(c) != 0
	// is the other side feasible?
	r, md := m.checkSat(c, cur)
	switch r {
	case Sat:
		m.emit(WorkItem{Trail: m.childTrail(Decision{Kind: dBranch, Out: b2u(!cur)}), Model: md})
		m.res.NewItems++
		if forkSites != nil && m.curFn != nil {
			forkSites["fn "+m.curFn.String()]++
		}
	case Unknown:
		m.inconclusive("solver unknown on branch feasibility: " + m.solver.lastErr)
	}
	m.trail = append(m.trail, Decision{Kind: dBranch, Out: b2u(cur)})
	m.dpos++
	if cur {
		m.addPC(c)
	} else {
		m.addPC(tt.Not(c))
	}
	return cur
}

// choose picks one of n alternatives that are all feasible (scheduling, nondetChoice).
func (m *Machine) choose(n int) int {
	if n <= 1 {
		return 0
	}
	m.pcAt = append(m.pcAt, len(m.pc))
	if m.dpos < len(m.trail) {
		d := m.trail[m.dpos]
		if d.Kind != dChoice {
			panic(engineError{fmt.Sprintf("replay divergence: expected choice decision at %d, trail has kind %d", m.dpos, d.Kind)})
		}
		m.dpos++
		if int(d.Out) >= n {
			panic(engineError{"replay divergence: choice out of range"})
		}
		return int(d.Out)
	}
	for i := 1; i < n; i++ {
		m.emit(WorkItem{Trail: m.childTrail(Decision{Kind: dChoice, Out: uint64(i)}), Model: m.model})
		m.res.NewItems++
	}
	m.trail = append(m.trail, Decision{Kind: dChoice, Out: 0})
	m.dpos++
	return 0
}

// concretize forks over the feasible values of a symbolic scalar.
func (m *Machine) concretize(fr *frame, s sym) value {
	tt := m.tt
	if s.t.op == OpConst {
		return fromBits(s.k, s.t.val)
	}
	var excl []uint64
	m.pcAt = append(m.pcAt, len(m.pc))
	if m.dpos < len(m.trail) {
		d := m.trail[m.dpos]
		if d.Kind != dValue {
			panic(engineError{fmt.Sprintf("replay divergence: expected value decision at %d, trail has kind %d", m.dpos, d.Kind)})
		}
		if !d.Open {
			m.dpos++
			m.addPC(tt.Eq(s.t, tt.Const(d.Out, s.t.w)))
			if m.evalTerm(s.t) != d.Out {
				panic(engineError{"replay divergence: model disagrees with recorded value"})
			}
			return fromBits(s.k, d.Out)
		}
		// open: this is the last entry; decide now
		excl = d.Excl
		m.trail = m.trail[:m.dpos]
	}
	for _, x := range excl {
		m.addPC(tt.Not(tt.Eq(s.t, tt.Const(x, s.t.w))))
	}
	v := m.evalTerm(s.t)
	for _, x := range excl {
		if x == v {
			panic(engineError{"replay divergence: model picks an excluded value"})
		}
	}
	eq := tt.Eq(s.t, tt.Const(v, s.t.w))
	// other values feasible?
	r, md := m.checkSat(eq, true)
	nexcl := append(append([]uint64(nil), excl...), v)
	switch r {
	case Sat:
		if len(nexcl) > 4096 {
			m.inconclusive("concretize: more than 4096 values")
		} else {
			m.emit(WorkItem{Trail: m.childTrail(Decision{Kind: dValue, Open: true, Excl: nexcl}), Model: md})
			m.res.NewItems++
			if forkSites != nil && fr != nil {
				forkSites["concretize in "+fr.fn.String()]++
			}
		}
	case Unknown:
		m.inconclusive("solver unknown on value enumeration")
	}
	m.trail = append(m.trail, Decision{Kind: dValue, Out: v, Excl: excl})
	m.dpos++
	m.addPC(eq)
	return fromBits(s.k, v)
}

// ---------------------------------------------------------------- maps

func (fr *frame) mapFind(mp *omap, key value) *mapEntry {
	if mp == nil {
		return nil
	}
	nk, conc := normKey(key)
	if conc && mp.symKeys == 0 {
		if i, ok := mp.index[nk]; ok {
			return mp.entries[i]
		}
		return nil
	}
	// linear scan with forks
	for _, e := range mp.entries {
		if e.deleted {
			continue
		}
		eq := fr.m.eqTerm(mp.keyType, key, e.key)
		if fr.branch(eq) {
			return e
		}
	}
	return nil
}

func (fr *frame) lookup(instr *ssa.Lookup, x, idx value) value {
	switch x := x.(type) {
	case *omap:
		e := fr.mapFind(x, idx)
		var v value
		ok := e != nil
		if ok {
			v = copyVal(e.val)
		} else {
			v = zero(instr.X.Type().Underlying().(*types.Map).Elem())
		}
		if instr.CommaOk {
			v = tuple{v, ok}
		}
		return v
	}
	panic(fmt.Sprintf("unexpected x type in Lookup: %T", x))
}

func (fr *frame) mapUpdate(mp *omap, key, val value) {
	if e := fr.mapFind(mp, key); e != nil {
		e.val = val
		return
	}
	nk, conc := normKey(key)
	mp.entries = append(mp.entries, &mapEntry{key: key, val: val})
	if conc {
		mp.index[nk] = len(mp.entries) - 1
	} else {
		mp.symKeys++
	}
	mp.live++
}

func (fr *frame) mapDelete(mp *omap, key value) {
	if mp == nil {
		return
	}
	e := fr.mapFind(mp, key)
	if e == nil {
		return
	}
	e.deleted = true
	mp.live--
	if nk, conc := normKey(e.key); conc {
		delete(mp.index, nk)
	} else {
		mp.symKeys--
	}
	// compact occasionally
	if len(mp.entries) > 32 && mp.live*2 < len(mp.entries) {
		var ne []*mapEntry
		mp.index = map[any]int{}
		for _, e := range mp.entries {
			if !e.deleted {
				ne = append(ne, e)
				if nk, conc := normKey(e.key); conc {
					mp.index[nk] = len(ne) - 1
				}
			}
		}
		mp.entries = ne
	}
}

func (m *Machine) newMapIter(fr *frame, mp *omap) iter {
	it := &mapIter{m: mp}
	if m.mapOrderOn && m.mapBudget != 0 && mp != nil && mp.live >= 2 {
		// explore rotations of the iteration order
		k := m.choose(mp.live)
		if k > 0 {
			if m.mapBudget > 0 {
				m.mapBudget--
			}
			rot := &omap{keyType: mp.keyType}
			var live []*mapEntry
			for _, e := range mp.entries {
				if !e.deleted {
					live = append(live, e)
				}
			}
			rot.entries = append(append([]*mapEntry(nil), live[k:]...), live[:k]...)
			it.m = rot
		}
	}
	return it
}

// ---------------------------------------------------------------- running a path

func sortedKeys[V any](m map[string]V) []string {
	ks := make([]string, 0, len(m))
	for k := range m {
		ks = append(ks, k)
	}
	sort.Strings(ks)
	return ks
}
