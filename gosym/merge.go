package main

// Guarded ("merged") evaluation of pure, loop-free scalar functions: instead of
// forking at every branch, both sides are evaluated and phis become ite terms.
// This changes the number of paths, not the semantics. Functions are selected by
// a static scan (no list by hand): acyclic CFG, scalar params/results, no memory
// access, no calls except to other mergeable functions, no operation that can panic.

import (
	"fmt"
	"os"
	"go/token"
	"go/types"

	"golang.org/x/tools/go/ssa"
)

func scalarKindOK(t types.Type) bool {
	b, ok := t.Underlying().(*types.Basic)
	if !ok {
		return false
	}
	switch b.Kind() {
	case types.Bool, types.Int, types.Int8, types.Int16, types.Int32, types.Int64,
		types.Uint, types.Uint8, types.Uint16, types.Uint32, types.Uint64, types.Uintptr,
		types.UntypedBool, types.UntypedInt, types.UntypedRune:
		return true
	}
	return false
}

func (p *Program) mergeable(fn *ssa.Function, visiting map[*ssa.Function]bool) bool {
	fi := p.info(fn)
	if fi.mergeable != 0 {
		return fi.mergeable > 0
	}
	if visiting[fn] {
		return false
	}
	visiting[fn] = true
	ok := p.scanMergeable(fn, visiting)
	delete(visiting, fn)
	if ok {
		fi.mergeable = 1
	} else {
		fi.mergeable = -1
	}
	return ok
}

func (p *Program) scanMergeable(fn *ssa.Function, visiting map[*ssa.Function]bool) bool {
	if fn.Blocks == nil || len(fn.Blocks) > 300 || fn.Recover != nil || len(fn.FreeVars) > 0 {
		return false
	}
	if p.info(fn).intrinsic != nil {
		return false
	}
	sig := fn.Signature
	if sig.Results().Len() != 1 || !scalarKindOK(sig.Results().At(0).Type()) {
		return false
	}
	for _, prm := range fn.Params {
		if scalarKindOK(prm.Type()) {
			continue
		}
		// a pointer receiver/param is fine as long as it is never used
		if _, isPtr := prm.Type().Underlying().(*types.Pointer); isPtr && (prm.Referrers() == nil || len(*prm.Referrers()) == 0) {
			continue
		}
		return false
	}
	// acyclic?
	state := make([]int8, len(fn.Blocks))
	var dfs func(b *ssa.BasicBlock) bool
	dfs = func(b *ssa.BasicBlock) bool {
		state[b.Index] = 1
		for _, s := range b.Succs {
			if state[s.Index] == 1 {
				return false
			}
			if state[s.Index] == 0 && !dfs(s) {
				return false
			}
		}
		state[b.Index] = 2
		return true
	}
	if !dfs(fn.Blocks[0]) {
		return false
	}
	for _, b := range fn.Blocks {
		for _, ins := range b.Instrs {
			switch ins := ins.(type) {
			case *ssa.DebugRef, *ssa.Phi, *ssa.If, *ssa.Jump, *ssa.Return:
				if v, ok := ins.(ssa.Value); ok && !scalarKindOK(v.Type()) {
					return false
				}
			case *ssa.BinOp:
				if !scalarKindOK(ins.X.Type()) || !scalarKindOK(ins.Y.Type()) {
					return false
				}
				switch ins.Op {
				case token.QUO, token.REM:
					c, ok := ins.Y.(*ssa.Const)
					if !ok || c.Value == nil || c.Uint64() == 0 {
						return false
					}
				case token.SHL, token.SHR:
					if c, ok := ins.Y.(*ssa.Const); ok {
						if c.Value == nil || c.Int64() < 0 {
							return false
						}
					} else if kindSigned(basicKind(ins.Y.Type())) {
						return false
					}
				}
			case *ssa.UnOp:
				switch ins.Op {
				case token.NOT, token.SUB, token.XOR:
					if !scalarKindOK(ins.X.Type()) {
						return false
					}
				default:
					return false
				}
			case *ssa.Convert:
				if !scalarKindOK(ins.X.Type()) || !scalarKindOK(ins.Type()) {
					return false
				}
			case *ssa.ChangeType:
				if !scalarKindOK(ins.X.Type()) || !scalarKindOK(ins.Type()) {
					return false
				}
			case *ssa.Call:
				callee := ins.Call.StaticCallee()
				if callee == nil || ins.Call.IsInvoke() {
					return false
				}
				if !p.mergeable(callee, visiting) {
					return false
				}
			default:
				return false
			}
		}
	}
	return true
}

// evalMerged evaluates a mergeable function on (partly) symbolic scalar arguments.
func (m *Machine) evalMerged(caller *frame, fn *ssa.Function, args []value) value {
	tt := m.tt
	fr := &frame{m: m, g: caller.g, caller: caller, fn: fn, info: m.prog.info(fn)}
	env := make(map[ssa.Value]value, 32)
	for i, p := range fn.Params {
		env[p] = args[i]
	}
	get := func(v ssa.Value) value {
		switch v := v.(type) {
		case *ssa.Const:
			return m.prog.constVal(v)
		}
		if x, ok := env[v]; ok {
			return x
		}
		panic(engineError{"evalMerged: no value for " + v.Name() + " in " + fn.String()})
	}
	// topological order (reverse post-order)
	var order []*ssa.BasicBlock
	seen := make([]bool, len(fn.Blocks))
	var dfs func(b *ssa.BasicBlock)
	dfs = func(b *ssa.BasicBlock) {
		seen[b.Index] = true
		for _, s := range b.Succs {
			if !seen[s.Index] {
				dfs(s)
			}
		}
		order = append(order, b)
	}
	dfs(fn.Blocks[0])
	for i, j := 0, len(order)-1; i < j; i, j = i+1, j-1 {
		order[i], order[j] = order[j], order[i]
	}
	guard := make([]*Term, len(fn.Blocks))
	edge := map[[2]int]*Term{} // (pred, succ) -> condition to take that edge
	guard[fn.Blocks[0].Index] = tt.True
	var result value
	var resGuard *Term
	resKind := basicKind(fn.Signature.Results().At(0).Type())
	for _, b := range order {
		g := guard[b.Index]
		if os.Getenv("GOSYM_DEBUGMERGE") == "2" {
			gs := "nil"
			if g != nil {
				gs = g.strDepth(3)
			}
			fmt.Fprintf(os.Stderr, "  block %d guard %s\n", b.Index, gs)
		}
		if g == nil || g.IsFalse() {
			continue
		}
		for _, ins := range b.Instrs {
			m.steps++
			switch ins := ins.(type) {
			case *ssa.DebugRef:
			case *ssa.Phi:
				var acc value
				var accSet bool
				// combine incoming values by edge guards, last-to-first
				for k := len(ins.Edges) - 1; k >= 0; k-- {
					pred := b.Preds[k]
					eg := edge[[2]int{pred.Index, b.Index}]
					if eg == nil || eg.IsFalse() {
						continue
					}
					v := get(ins.Edges[k])
					if !accSet {
						acc, accSet = v, true
						continue
					}
					kd := valueKind(v)
					acc = mkval(tt.Ite(eg, m.term(v), m.term(acc)), kd)
				}
				if !accSet {
					panic(engineError{"evalMerged: phi without live edge"})
				}
				env[ins] = acc
			case *ssa.BinOp:
				env[ins] = fr.binop(ins.Op, ins.X.Type(), get(ins.X), get(ins.Y))
			case *ssa.UnOp:
				env[ins] = fr.unop(ins, get(ins.X))
			case *ssa.Convert:
				env[ins] = fr.conv(ins.Type(), ins.X.Type(), get(ins.X))
			case *ssa.ChangeType:
				env[ins] = get(ins.X)
			case *ssa.Call:
				callee := ins.Call.StaticCallee()
				cargs := make([]value, len(ins.Call.Args))
				anySym := false
				for i, a := range ins.Call.Args {
					if _, isPtr := a.Type().Underlying().(*types.Pointer); isPtr {
						cargs[i] = (*value)(nil)
						continue
					}
					cargs[i] = get(a)
					if isSym(cargs[i]) {
						anySym = true
					}
				}
				if anySym {
					env[ins] = m.evalMerged(fr, callee, cargs)
				} else {
					env[ins] = m.callSSA(fr, ins.Pos(), callee, cargs, nil)
				}
			case *ssa.If:
				c := get(ins.Cond)
				var ct *Term
				switch c := c.(type) {
				case bool:
					ct = tt.Bool(c)
				case sym:
					ct = c.t
				}
				s0, s1 := b.Succs[0], b.Succs[1]
				e0 := tt.And(g, ct)
				e1 := tt.And(g, tt.Not(ct))
				addEdge(tt, edge, guard, b.Index, s0.Index, e0)
				addEdge(tt, edge, guard, b.Index, s1.Index, e1)
			case *ssa.Jump:
				addEdge(tt, edge, guard, b.Index, b.Succs[0].Index, g)
			case *ssa.Return:
				v := get(ins.Results[0])
				if result == nil {
					result, resGuard = v, g
				} else {
					result = mkval(tt.Ite(g, m.term(v), m.term(result)), resKind)
					resGuard = tt.Or(resGuard, g)
				}
			}
		}
	}
	if result == nil {
		panic(engineError{"evalMerged: no return reached in " + fn.String()})
	}
	if os.Getenv("GOSYM_DEBUGMERGE") != "" {
		fmt.Fprintf(os.Stderr, "merged %s => %s\n", fn, toString(result))
		if s, ok := result.(sym); ok {
			fmt.Fprintf(os.Stderr, "   term: %s\n", s.t.strDepth(12))
		}
	}
	// normalise the dynamic kind of the result
	if s, ok := result.(sym); ok {
		return sym{s.t, resKind}
	}
	return result
}

func addEdge(tt *TermTable, edge map[[2]int]*Term, guard []*Term, from, to int, cond *Term) {
	k := [2]int{from, to}
	if old, ok := edge[k]; ok {
		edge[k] = tt.Or(old, cond)
	} else {
		edge[k] = cond
	}
	if guard[to] == nil {
		guard[to] = cond
	} else {
		guard[to] = tt.Or(guard[to], cond)
	}
}
