package main

// `gosym check <property> <quick|thorough>`: runs every harness registered for the
// property in /verif/checks.json, replays counterexamples and path witnesses natively,
// matches known findings, writes /verif/evidence/<id>.json and sets the exit code.

import (
	"bufio"
	"crypto/sha256"
	"encoding/hex"
	"encoding/json"
	"fmt"
	"go/types"
	"os"
	"os/exec"
	"path/filepath"
	"regexp"
	"sort"
	"strconv"
	"strings"
	"time"

	"golang.org/x/tools/go/ssa"
)

type PropertyChecks struct {
	Level       string     `json:"level"`
	Quick       []*RunSpec `json:"quick"`
	Thorough    []*RunSpec `json:"thorough"`
	Assumptions []string   `json:"assumptions"`
	Stubs       []string   `json:"stubs"`
}

type KnownFinding struct {
	Status   string `json:"status"` // finding | fixed
	Property string `json:"property"`
	Harness  string `json:"harness"`
	Kind     string `json:"kind"`
	Label    string `json:"label"`            // exact assertion label (or prefix when ending in *)
	Detail   string `json:"detail,omitempty"` // substring that must occur in the violation detail
	What     string `json:"what"`
	Commit   string `json:"commit,omitempty"`
	Input    string `json:"input_regex,omitempty"` // regexp over the decoded "input" observation of the counterexample
	re       *regexp.Regexp
}

// obsInput returns the decoded "input" observation recorded before the violation, if any.
func obsInput(v *Violation) (string, bool) {
	for _, o := range v.Obs {
		if strings.HasPrefix(o, "input=") {
			b, err := hex.DecodeString(o[len("input="):])
			if err == nil {
				return string(b), true
			}
		}
	}
	return "", false
}

func loadKnown() []KnownFinding {
	var out []KnownFinding
	f, err := os.Open(filepath.Join(verifRoot, "known_findings.jsonl"))
	if err != nil {
		return nil
	}
	defer f.Close()
	sc := bufio.NewScanner(f)
	sc.Buffer(make([]byte, 1<<20), 1<<20)
	for sc.Scan() {
		line := strings.TrimSpace(sc.Text())
		if line == "" || strings.HasPrefix(line, "#") {
			continue
		}
		var k KnownFinding
		if err := json.Unmarshal([]byte(line), &k); err == nil {
			out = append(out, k)
		}
	}
	return out
}

func (k *KnownFinding) matches(prop, harness string, v *Violation) bool {
	if k.Status != "finding" || k.Property != prop {
		return false
	}
	if k.Harness != "" && k.Harness != harness {
		return false
	}
	if k.Kind != "" && k.Kind != v.Kind {
		return false
	}
	if strings.HasSuffix(k.Label, "*") {
		if !strings.HasPrefix(v.Label, strings.TrimSuffix(k.Label, "*")) {
			return false
		}
	} else if k.Label != v.Label {
		return false
	}
	if k.Detail != "" && !strings.Contains(v.Detail, k.Detail) {
		return false
	}
	if k.Input != "" {
		if k.re == nil {
			k.re = regexp.MustCompile(k.Input)
		}
		in, ok := obsInput(v)
		if !ok || !k.re.MatchString(in) {
			return false
		}
	}
	return true
}

type replayCase struct {
	name    string
	spec    *RunSpec
	nondets []NDVal
	// expectations
	viol    *Violation
	witness *Witness
	group   string
	// results
	out      []string
	panicked string
	ran      bool
}

type specResult struct {
	spec     *RunSpec
	sum      *RunSummary
	entrySig *types.Signature
}

func cmdCheck(argv []string) int {
	if len(argv) < 2 {
		fmt.Fprintln(os.Stderr, "usage: gosym check <property> <quick|thorough> [--replay file]")
		return 2
	}
	prop, tier := argv[0], argv[1]
	if t := os.Getenv("VERIF_TIER"); t == "quick" || t == "thorough" {
		tier = t
	}
	if len(argv) >= 4 && argv[2] == "--replay" {
		return cmdReplayFile(prop, argv[3])
	}
	seed := 0
	if s := os.Getenv("VERIF_SEED"); s != "" {
		seed, _ = strconv.Atoi(s)
	}
	start := time.Now()
	raw, err := os.ReadFile(filepath.Join(verifRoot, "checks.json"))
	if err != nil {
		fatal(err)
	}
	var all map[string]*PropertyChecks
	if err := json.Unmarshal(raw, &all); err != nil {
		fatal(fmt.Errorf("checks.json: %v", err))
	}
	pc := all[prop]
	if pc == nil {
		fatal(fmt.Errorf("no checks registered for %s", prop))
	}
	specs := pc.Quick
	if tier == "thorough" && len(pc.Thorough) > 0 {
		specs = pc.Thorough
	}
	filter := os.Getenv("VERIF_ONLY") // run a single harness (debugging)
	known := loadKnown()

	// group specs by load key
	type loadKey struct{ dir, pkg, harness string }
	groups := map[loadKey][]*RunSpec{}
	var order []loadKey
	for _, s := range specs {
		if filter != "" && !strings.Contains(s.Name, filter) {
			continue
		}
		k := loadKey{s.Dir, s.Pkg, strings.Join(s.Harness, ",")}
		if _, ok := groups[k]; !ok {
			order = append(order, k)
		}
		groups[k] = append(groups[k], s)
	}

	var results []*specResult
	exit := 0
	var inconclusive []string
	var violLines []string
	var knownLines []string
	traces := 0
	tracesMismatch := 0
	totalViolations := 0
	for _, k := range order {
		ld, err := LoadProgram(k.dir, k.pkg, groups[k][0].Harness)
		if err != nil {
			fmt.Printf("INCONCLUSIVE property=%s reason=load failed for %s: %v\n", prop, k.pkg, err)
			inconclusive = append(inconclusive, "load failed: "+err.Error())
			continue
		}
		var cases []*replayCase
		entrySigs := map[string]*types.Signature{}
		for _, spec := range groups[k] {
			entry := ld.Pkg.Func(spec.Entry)
			if entry == nil {
				inconclusive = append(inconclusive, "entry not found: "+spec.Entry)
				continue
			}
			entrySigs[spec.Entry] = entry.Signature
			if spec.Witnesses == 0 {
				spec.Witnesses = 40
			}
			if w := os.Getenv("GOSYM_WITNESSES"); w != "" {
				spec.Witnesses, _ = strconv.Atoi(w)
			}
			if w := os.Getenv("GOSYM_WORKERS"); w != "" {
				spec.Workers, _ = strconv.Atoi(w)
			}
			spec.classify = func(v *Violation) string {
				for i := range known {
					if known[i].matches(prop, spec.Name, v) {
						return fmt.Sprintf("known#%d", i)
					}
				}
				return ""
			}
			sum := Explore(ld.Prog, entry, spec)
			results = append(results, &specResult{spec: spec, sum: sum, entrySig: entry.Signature})
			fmt.Printf("harness=%s entry=%s args=%v paths=%d ok=%d assume-false=%d inconclusive=%d violations=%d queries=%d solver=%.1fs wall=%.1fs\n",
				spec.Name, spec.Entry, spec.Args, sum.Paths, sum.PathsOK, sum.Infeasible, sum.Inconclusive, len(sum.ViolGroups), sum.Solver.Queries, sum.SolverTimeS, sum.WallS)
			if sum.Inconclusive > 0 {
				for r, n := range sum.InconReasons {
					inconclusive = append(inconclusive, fmt.Sprintf("%s: %d paths: %s", spec.Name, n, r))
				}
			}
			if sum.Truncated != "" {
				inconclusive = append(inconclusive, spec.Name+": "+sum.Truncated)
			}
			if len(sum.MissingCovers) > 0 {
				inconclusive = append(inconclusive, fmt.Sprintf("%s: VACUOUS cover labels never reached: %v", spec.Name, sum.MissingCovers))
			}
			if sum.Solver.Errors > 0 {
				inconclusive = append(inconclusive, fmt.Sprintf("%s: %d solver error lines", spec.Name, sum.Solver.Errors))
			}
			// per violation group the kept counterexamples (at most keepPerGroup) are candidates: the first one
			// that reproduces natively represents the group; a group none of whose candidates reproduces is a mismatch
			// (schedule replay through gates is timing-based, so a single candidate may fail to reproduce)
			for _, v := range sum.Violations {
				key := spec.Name + "|" + v.Kind + "|" + v.Label + "|" + spec.classify(v)
				cases = append(cases, &replayCase{name: fmt.Sprintf("%s-v%d", spec.Name, len(cases)), spec: spec, nondets: v.Nondets, viol: v, group: key})
			}
			for _, w := range sum.Witnesses {
				cases = append(cases, &replayCase{name: fmt.Sprintf("%s-w%d", spec.Name, len(cases)), spec: spec, nondets: w.Nondets, witness: w})
			}
		}
		if len(cases) > 0 {
			if err := nativeReplay(ld, k.dir, k.pkg, groups[k][0].Harness, entrySigs, cases); err != nil {
				inconclusive = append(inconclusive, "native replay failed: "+err.Error())
			}
		}
		groupDone := map[string]bool{}
		groupFail := map[string]string{}
		var groupOrder []string
		for _, c := range cases {
			if c.witness != nil {
				if !c.ran {
					continue
				}
				// compare observations and covers
				mismatch := c.panicked != "" || !sameObs(c.witness.Obs, c.out) || !sameCovers(c.witness.Covers, c.out)
				if c.witness.Concurrent {
					// the native schedule is the runtime's, not the path's: whatever the native run shows
					// belongs to another interleaving, so it neither validates nor contradicts this path
					continue
				}
				if mismatch {
					tracesMismatch++
					inconclusive = append(inconclusive, fmt.Sprintf("%s: ENGINE-MISMATCH on witness %s: engine obs %v covers %v, native %v %s nondets %v", c.spec.Name, c.name, c.witness.Obs, c.witness.Covers, c.out, c.panicked, compactND(c.nondets)))
				} else {
					traces++
				}
				continue
			}
			v := c.viol
			if groupDone[c.group] {
				continue
			}
			if _, seenGroup := groupFail[c.group]; !seenGroup {
				totalViolations++
				groupOrder = append(groupOrder, c.group)
				groupFail[c.group] = ""
			}
			reproduced := false
			if c.ran {
				switch v.Kind {
				case "assert":
					for _, l := range c.out {
						if l == "VERIF-ASSERT-FAIL "+v.Label {
							reproduced = true
						}
					}
				case "panic":
					reproduced = c.panicked != ""
				case "nontermination":
					// natively the run is killed by the replay timeout inside this case
					reproduced = strings.Contains(c.panicked, "process ended inside case") || strings.Contains(c.panicked, "test timed out")
				case "deadlock":
					reproduced = false
				}
			}
			path := saveReplay(prop, c)
			if !reproduced {
				if v.Kind == "deadlock" || v.Kind == "race" || len(v.Gates) > 0 {
					// schedule-dependent: needs the schedule replayer
					if ok := scheduleReplay(ld, k.dir, k.pkg, groups[k][0].Harness, entrySigs, c); ok {
						reproduced = true
					}
				}
			}
			if !reproduced {
				if groupFail[c.group] == "" {
					groupFail[c.group] = fmt.Sprintf("%s: ENGINE-MISMATCH counterexample for %q did not reproduce natively (replay=%s, native output: %v %s)", c.spec.Name, v.Label, path, c.out, c.panicked)
				}
				continue
			}
			groupDone[c.group] = true
			matched := false
			for i := range known {
				if known[i].matches(prop, c.spec.Name, v) {
					knownLines = append(knownLines, fmt.Sprintf("KNOWN-FINDING: property=%s %s", prop, known[i].What))
					matched = true
					break
				}
			}
			if !matched {
				violLines = append(violLines, fmt.Sprintf("VIOLATION property=%s replay=%s", prop, path))
				fmt.Printf("  counterexample harness=%s kind=%s label=%q detail=%s\n", c.spec.Name, v.Kind, v.Label, trunc(v.Detail, 400))
			}
		}
		for _, g := range groupOrder {
			if !groupDone[g] && groupFail[g] != "" {
				inconclusive = append(inconclusive, groupFail[g])
			}
		}
	}
	sort.Strings(knownLines)
	knownLines = uniq(knownLines)
	for _, l := range knownLines {
		fmt.Println(l)
	}
	for _, l := range violLines {
		fmt.Println(l)
	}
	if len(violLines) > 0 {
		exit = 1
	} else if len(inconclusive) > 0 {
		exit = 2
		for _, r := range inconclusive {
			fmt.Printf("INCONCLUSIVE property=%s reason=%s\n", prop, trunc(r, 600))
		}
	}
	writeEvidence(prop, tier, seed, pc, results, traces, tracesMismatch, len(violLines), knownLines, inconclusive, time.Since(start).Seconds())
	if exit == 0 {
		fmt.Printf("HOLDS (bounded) property=%s tier=%s harnesses=%d\n", prop, tier, len(results))
	}
	return exit
}

func uniq(s []string) []string {
	var out []string
	for i, x := range s {
		if i == 0 || x != s[i-1] {
			out = append(out, x)
		}
	}
	return out
}

func trunc(s string, n int) string {
	if len(s) > n {
		return s[:n] + "…"
	}
	return s
}

func filterObs(out []string) []string {
	var r []string
	for _, l := range out {
		if strings.HasPrefix(l, "VERIF-OBS ") {
			r = append(r, strings.TrimPrefix(l, "VERIF-OBS "))
		}
	}
	return r
}

func sameObs(engine []string, native []string) bool {
	n := filterObs(native)
	if len(n) != len(engine) {
		return false
	}
	for i := range n {
		if n[i] != engine[i] {
			return false
		}
	}
	return true
}

func sameCovers(engine []string, native []string) bool {
	set := map[string]bool{}
	for _, l := range native {
		if strings.HasPrefix(l, "VERIF-COVER ") {
			set[strings.TrimPrefix(l, "VERIF-COVER ")] = true
		}
		if strings.HasPrefix(l, "VERIF-ASSERT-FAIL") || strings.HasPrefix(l, "VERIF-ASSUME-FAIL") {
			return false
		}
	}
	if len(set) != len(engine) {
		return false
	}
	for _, c := range engine {
		if !set[c] {
			return false
		}
	}
	return true
}

func saveReplay(prop string, c *replayCase) string {
	dir := filepath.Join(verifRoot, "replays")
	os.MkdirAll(dir, 0o755)
	doc := map[string]any{
		"property": prop, "harness": c.spec.Name, "dir": c.spec.Dir, "pkg": c.spec.Pkg, "harness_files": c.spec.Harness,
		"entry": c.spec.Entry, "args": c.spec.Args, "nondets": c.nondets,
	}
	if c.viol != nil {
		doc["kind"] = c.viol.Kind
		doc["label"] = c.viol.Label
		doc["detail"] = c.viol.Detail
		doc["schedule"] = c.viol.Sched
		doc["gates"] = c.viol.Gates
		if in, ok := obsInput(c.viol); ok {
			doc["input"] = in
		}
	}
	b, _ := json.MarshalIndent(doc, "", " ")
	h := sha256.Sum256(b)
	path := filepath.Join(dir, fmt.Sprintf("%s-%s.json", prop, hex.EncodeToString(h[:6])))
	os.WriteFile(path, b, 0o644)
	return path
}


// nativeReplay compiles the harness natively with `go test -overlay` and runs all cases.
func nativeReplay(ld *Loaded, dir, pkg string, harness []string, sigs map[string]*types.Signature, cases []*replayCase) error {
	return nativeReplayWith(ld, dir, pkg, harness, sigs, cases, nil, nil)
}

func nativeReplayWith(ld *Loaded, dir, pkg string, harness []string, sigs map[string]*types.Signature, cases []*replayCase, extraOv map[string][]byte, extraEnv []string) error {
	tmp, err := os.MkdirTemp("", "gosym-replay-")
	if err != nil {
		return err
	}
	defer os.RemoveAll(tmp)
	ov, err := harnessOverlay(ld.PkgDir, ld.Name, harness, true)
	if err != nil {
		return err
	}
	// generated test driver
	var sb strings.Builder
	fmt.Fprintf(&sb, "package %s\n\nimport (\n\t\"bufio\"\n\t\"fmt\"\n\t\"os\"\n\t\"strconv\"\n\t\"strings\"\n\t\"testing\"\n)\n\n", ld.Name)
	sb.WriteString("func zzDispatch(entry string, a []int64) {\n\tswitch entry {\n")
	var names []string
	for n := range sigs {
		names = append(names, n)
	}
	sort.Strings(names)
	for _, n := range names {
		sig := sigs[n]
		fmt.Fprintf(&sb, "\tcase %q:\n\t\t%s(", n, n)
		for i := 0; i < sig.Params().Len(); i++ {
			if i > 0 {
				sb.WriteString(", ")
			}
			fmt.Fprintf(&sb, "%s(a[%d])", types.TypeString(sig.Params().At(i).Type(), func(*types.Package) string { return "" }), i)
		}
		sb.WriteString(")\n")
	}
	sb.WriteString("\tdefault:\n\t\tpanic(\"unknown entry \" + entry)\n\t}\n}\n\n")
	sb.WriteString(`func TestVerifReplay(t *testing.T) {
	f, err := os.Open(os.Getenv("VERIF_REPLAY_LIST"))
	if err != nil {
		t.Fatal(err)
	}
	defer f.Close()
	sc := bufio.NewScanner(f)
	skip := os.Getenv("VERIF_REPLAY_SKIP")
	n := 0
	for sc.Scan() {
		fs := strings.Fields(sc.Text())
		if len(fs) < 3 {
			continue
		}
		n++
		if skip != "" {
			k, _ := strconv.Atoi(skip)
			if n <= k {
				continue
			}
		}
		name, entry, vec := fs[0], fs[1], fs[2]
		var args []int64
		for _, a := range fs[3:] {
			v, _ := strconv.ParseInt(a, 10, 64)
			args = append(args, v)
		}
		for len(args) < 8 {
			args = append(args, 0)
		}
		fmt.Printf("VERIF-BEGIN %s\n", name)
		os.Setenv("VERIF_REPLAY", vec)
		zzLoaded = false
		zzVec = nil
		zzPos = 0
		zzGateResetForCase()
		func() {
			defer func() {
				if r := recover(); r != nil {
					if _, ok := r.(zzAssumeFailed); !ok {
						fmt.Printf("VERIF-PANIC %v\n", r)
					}
				}
			}()
			zzDispatch(entry, args)
		}()
		fmt.Printf("VERIF-END %s\n", name)
	}
}
`)
	ov[filepath.Join(ld.PkgDir, "zz_verif_replay_test.go")] = []byte(sb.String())
	for k, v := range extraOv {
		ov[k] = v
	}
	// write overlay files to tmp
	repl := map[string]string{}
	i := 0
	for virt, content := range ov {
		real := filepath.Join(tmp, fmt.Sprintf("f%d_%s", i, filepath.Base(virt)))
		i++
		if err := os.WriteFile(real, content, 0o644); err != nil {
			return err
		}
		repl[virt] = real
	}
	ovJSON, _ := json.Marshal(map[string]any{"Replace": repl})
	ovPath := filepath.Join(tmp, "overlay.json")
	os.WriteFile(ovPath, ovJSON, 0o644)
	// vectors
	var list strings.Builder
	for _, c := range cases {
		vp := filepath.Join(tmp, c.name+".vec")
		var vb strings.Builder
		for _, n := range c.nondets {
			fmt.Fprintf(&vb, "%d\n", n.V)
		}
		os.WriteFile(vp, []byte(vb.String()), 0o644)
		fmt.Fprintf(&list, "%s %s %s", c.name, c.spec.Entry, vp)
		for _, a := range c.spec.Args {
			fmt.Fprintf(&list, " %d", a)
		}
		list.WriteString("\n")
	}
	listPath := filepath.Join(tmp, "list.txt")
	os.WriteFile(listPath, []byte(list.String()), 0o644)

	// build once
	bin := filepath.Join(tmp, "replay.test")
	build := exec.Command("go", "test", "-c", "-vet=off", "-overlay", ovPath, "-o", bin, pkg)
	build.Dir = filepath.Join(repoRoot, dir)
	build.Env = nativeGoEnv(tmp)
	if out, err := build.CombinedOutput(); err != nil {
		return fmt.Errorf("go test -c: %v\n%s", err, trunc(string(out), 2000))
	}
	skip := 0
	for skip < len(cases) {
		run := exec.Command(bin, "-test.run", "^TestVerifReplay$", "-test.count=1", "-test.timeout=20s")
		run.Dir = ld.PkgDir
		run.Env = append(nativeGoEnv(tmp), "VERIF_REPLAY_LIST="+listPath, "VERIF_REPLAY_SKIP="+strconv.Itoa(skip))
		run.Env = append(run.Env, extraEnv...)
		out, _ := run.CombinedOutput()
		lines := strings.Split(string(out), "\n")
		cur := -1
		finished := skip
		for li, l := range lines {
			l = strings.TrimRight(l, "\r")
			switch {
			case strings.HasPrefix(l, "VERIF-BEGIN "):
				name := strings.TrimPrefix(l, "VERIF-BEGIN ")
				cur = -1
				for ci, c := range cases {
					if c.name == name {
						cur = ci
					}
				}
			case strings.HasPrefix(l, "VERIF-END "):
				if cur >= 0 {
					cases[cur].ran = true
					finished = cur + 1
				}
				cur = -1
			case strings.HasPrefix(l, "VERIF-PANIC "):
				if cur >= 0 {
					cases[cur].panicked = l
				}
			case strings.HasPrefix(l, "panic: ") || strings.HasPrefix(l, "fatal error: "):
				if cur >= 0 {
					cases[cur].panicked = l + " " + strings.Join(lines[li+1:min(li+4, len(lines))], " | ")
					cases[cur].ran = true
					finished = cur + 1
					cur = -1
				}
			default:
				if cur >= 0 && strings.HasPrefix(l, "VERIF-") {
					cases[cur].out = append(cases[cur].out, l)
				}
			}
		}
		if cur >= 0 {
			// process died (or timed out) inside case cur without a panic line
			cases[cur].ran = true
			if cases[cur].panicked == "" {
				cases[cur].panicked = "process ended inside case: " + trunc(string(out[max(0, len(out)-300):]), 300)
			}
			finished = cur + 1
		}
		if finished <= skip {
			break
		}
		skip = finished
		if finished >= len(cases) {
			break
		}
	}
	return nil
}

func nativeGoEnv(tmp string) []string {
	var env []string
	for _, e := range os.Environ() {
		if strings.HasPrefix(e, "GOFLAGS=") || strings.HasPrefix(e, "PATH=") || strings.HasPrefix(e, "GOTOOLCHAIN=") {
			continue
		}
		env = append(env, e)
	}
	// the repo's own toolchain selection (default go auto-switches to the cached toolchain the go.work asks for)
	path := os.Getenv("PATH")
	path = strings.TrimPrefix(path, "/opt/veriftools/go1.26.8/bin:")
	env = append(env, "PATH="+path, "GOFLAGS=", "GOPROXY=off", "GOSUMDB=off", "GOTOOLCHAIN=auto")
	return env
}

func cmdReplayFile(prop, path string) int {
	raw, err := os.ReadFile(path)
	if err != nil {
		fatal(err)
	}
	var doc struct {
		Harness      string   `json:"harness"`
		Dir          string   `json:"dir"`
		Pkg          string   `json:"pkg"`
		HarnessFiles []string `json:"harness_files"`
		Entry        string   `json:"entry"`
		Args         []int64  `json:"args"`
		Nondets      []NDVal  `json:"nondets"`
		Kind         string   `json:"kind"`
		Label        string   `json:"label"`
		Gates        []GateStep `json:"gates"`
	}
	if err := json.Unmarshal(raw, &doc); err != nil {
		fatal(err)
	}
	ld, err := LoadProgram(doc.Dir, doc.Pkg, doc.HarnessFiles)
	if err != nil {
		fatal(err)
	}
	entry := ld.Pkg.Func(doc.Entry)
	if entry == nil {
		fatal(fmt.Errorf("entry %s not found", doc.Entry))
	}
	spec := &RunSpec{Name: doc.Harness, Dir: doc.Dir, Pkg: doc.Pkg, Harness: doc.HarnessFiles, Entry: doc.Entry, Args: doc.Args}
	c := &replayCase{name: "replay", spec: spec, nondets: doc.Nondets, viol: &Violation{Kind: doc.Kind, Label: doc.Label, Gates: doc.Gates}}
	if len(doc.Gates) > 0 {
		if scheduleReplay(ld, doc.Dir, doc.Pkg, doc.HarnessFiles, map[string]*types.Signature{doc.Entry: entry.Signature}, c) {
			fmt.Printf("VIOLATION property=%s replay=%s\n", prop, path)
			return 1
		}
		for _, l := range c.out {
			fmt.Println(l)
		}
		fmt.Println(c.panicked)
		fmt.Println("replay did not reproduce a violation")
		return 0
	}
	if err := nativeReplay(ld, doc.Dir, doc.Pkg, doc.HarnessFiles, map[string]*types.Signature{doc.Entry: entry.Signature}, []*replayCase{c}); err != nil {
		fatal(err)
	}
	for _, l := range c.out {
		fmt.Println(l)
	}
	if c.panicked != "" {
		fmt.Println(c.panicked)
	}
	repro := c.panicked != ""
	for _, l := range c.out {
		if strings.HasPrefix(l, "VERIF-ASSERT-FAIL") {
			repro = true
		}
	}
	if repro {
		fmt.Printf("VIOLATION property=%s replay=%s\n", prop, path)
		return 1
	}
	fmt.Println("replay did not reproduce a violation")
	return 0
}

func writeEvidence(prop, tier string, seed int, pc *PropertyChecks, results []*specResult, traces, mismatches, violations int, knownLines, inconclusive []string, wall float64) {
	states, transitions := 0, int64(0)
	var harnesses []map[string]any
	var samples []any
	funcs := map[string]bool{}
	queries, qsat, qunsat, qunknown := 0, 0, 0, 0
	solverS := 0.0
	var bounds []string
	var outside []string
	exhaustive := true
	for _, r := range results {
		s := r.sum
		states += s.Paths
		transitions += s.Decisions
		queries += s.Solver.Queries
		qsat += s.Solver.Sat
		qunsat += s.Solver.Unsat
		qunknown += s.Solver.Unknown
		solverS += s.SolverTimeS
		for _, f := range s.Functions {
			funcs[f] = true
		}
		if s.Truncated != "" || s.Inconclusive > 0 {
			exhaustive = false
		}
		h := map[string]any{
			"harness": r.spec.Name, "entry": r.spec.Entry, "args": r.spec.Args, "bounds": r.spec.Bounds,
			"paths": s.Paths, "paths_ok": s.PathsOK, "paths_assume_false": s.Infeasible, "inconclusive_paths": s.Inconclusive,
			"decisions": s.Decisions, "instructions": s.Steps, "assertions_checked": s.Asserts, "symbolic_obligations": s.Obligations,
			"cover": s.Covers, "violation_groups": s.ViolGroups, "solver_queries": s.Solver.Queries, "solver_time_s": s.SolverTimeS, "wall_s": s.WallS,
			"max_decision_depth": s.MaxTrail, "uninterpreted_hash": s.UsedUF,
		}
		if r.spec.Preempt != nil {
			h["preemption_bound"] = *r.spec.Preempt
		}
		if s.Truncated != "" {
			h["truncated"] = s.Truncated
		}
		harnesses = append(harnesses, h)
		if r.spec.Bounds != "" {
			bounds = append(bounds, r.spec.Name+": "+r.spec.Bounds)
		}
		if r.spec.Outside != "" {
			outside = append(outside, r.spec.Name+": "+r.spec.Outside)
		}
		for i, sm := range s.Samples {
			if i < 3 {
				sm["harness"] = r.spec.Name
				samples = append(samples, sm)
			}
		}
	}
	var fl []string
	for f := range funcs {
		fl = append(fl, f)
	}
	sort.Strings(fl)
	if len(samples) == 0 {
		samples = append(samples, "no completed path")
	}
	if states == 0 {
		states = 1
	}
	if transitions == 0 {
		transitions = 1
	}
	if pc.Assumptions == nil {
		pc.Assumptions = []string{}
	}
	if pc.Stubs == nil {
		pc.Stubs = []string{}
	}
	level := pc.Level
	if level == "" {
		level = "model_checking"
	}
	ev := map[string]any{
		"property_id": prop,
		"tier":        tier,
		"seed":        seed,
		"level":       level,
		"coverage": map[string]any{
			"states":                        states,
			"transitions":                   transitions,
			"traces_validated_against_impl": traces,
			"samples":                       samples,
			"exhaustive":                    exhaustive && len(inconclusive) == 0,
			"explanation":                   "states = feasible paths of the real code's SSA explored symbolically (every path condition decided by the SMT solver); transitions = symbolic decisions taken; traces_validated = solver models of explored paths replayed against the natively compiled code with identical observations",
			"harnesses":                     harnesses,
			"functions_encoded":             fl,
			"bounds":                        bounds,
			"outside_claim":                 outside,
			"queries":                       map[string]int{"total": queries, "sat": qsat, "unsat": qunsat, "unknown": qunknown},
			"solver":                        "z3 4.8.12 via one `z3 -in` per worker (push/pop per path)",
			"solver_time_s":                 solverS,
			"stubs":                         pc.Stubs,
			"inconclusive":                  inconclusive,
			"known_findings_reported":       knownLines,
			"witness_mismatches":            mismatches,
		},
		"assumptions": pc.Assumptions,
		"wall_s":      wall,
		"violations":  violations,
	}
	os.MkdirAll(filepath.Join(verifRoot, "evidence"), 0o755)
	b, _ := json.MarshalIndent(ev, "", " ")
	os.WriteFile(filepath.Join(verifRoot, "evidence", prop+".json"), b, 0o644)
}

var _ = ssa.NewProgram
