package main

func cmdCheck(argv []string) int { return 2 }
