package main

// Models of sync, sync/atomic, context-adjacent pieces and fmt call-outs.

import (
	"errors"
	"fmt"
	"go/token"
	"go/types"
	"strings"

	"golang.org/x/tools/go/ssa"
)

func (m *Machine) mutex(p *value) *mutexState {
	if s, ok := m.mutexes[p]; ok {
		return s
	}
	s := &mutexState{}
	m.mutexes[p] = s
	return s
}

type wgKey struct{ p *value }
type avKey struct{ p *value }
type smKey struct{ p *value }
type poolKey struct{ p *value }
type condKey struct{ p *value }

func structFieldIndex(t types.Type, name string) int {
	st := t.Underlying().(*types.Struct)
	for i := 0; i < st.NumFields(); i++ {
		if st.Field(i).Name() == name {
			return i
		}
	}
	return -1
}

func registerSync(reg func(string, intrinsicFn)) {
	lock := func(fr *frame, args []value) value {
		m := fr.m
		m.yield(fr)
		p := args[0].(*value)
		if p == nil {
			rtPanic("runtime error: invalid memory address or nil pointer dereference")
		}
		s := m.mutex(p)
		m.block(fr, "mutex.Lock", func() bool { return !s.locked && s.readers == 0 })
		s.locked = true
		s.owner = m.cur.id
		return nil
	}
	unlock := func(fr *frame, args []value) value {
		m := fr.m
		p := args[0].(*value)
		s := m.mutex(p)
		if !s.locked {
			panic(targetPanic{v: errString("fatal error: sync: unlock of unlocked mutex"), stack: fr.stack()})
		}
		s.locked = false
		m.yield(fr)
		return nil
	}
	trylock := func(fr *frame, args []value) value {
		m := fr.m
		m.yield(fr)
		s := m.mutex(args[0].(*value))
		if s.locked || s.readers > 0 {
			return false
		}
		s.locked = true
		return true
	}
	reg("(*sync.Mutex).Lock (*sync.RWMutex).Lock (*internal/sync.Mutex).Lock", lock)
	reg("(*sync.Mutex).Unlock (*sync.RWMutex).Unlock (*internal/sync.Mutex).Unlock", unlock)
	reg("(*sync.Mutex).TryLock (*sync.RWMutex).TryLock (*internal/sync.Mutex).TryLock", trylock)
	reg("(*sync.RWMutex).RLock", func(fr *frame, args []value) value {
		m := fr.m
		m.yield(fr)
		s := m.mutex(args[0].(*value))
		m.block(fr, "rwmutex.RLock", func() bool { return !s.locked })
		s.readers++
		return nil
	})
	reg("(*sync.RWMutex).RUnlock", func(fr *frame, args []value) value {
		m := fr.m
		s := m.mutex(args[0].(*value))
		if s.readers <= 0 {
			panic(targetPanic{v: errString("fatal error: sync: RUnlock of unlocked RWMutex"), stack: fr.stack()})
		}
		s.readers--
		m.yield(fr)
		return nil
	})
	reg("(*sync.RWMutex).TryRLock", func(fr *frame, args []value) value {
		m := fr.m
		m.yield(fr)
		s := m.mutex(args[0].(*value))
		if s.locked {
			return false
		}
		s.readers++
		return true
	})

	// WaitGroup
	wgAdd := func(fr *frame, p *value, d int64) {
		m := fr.m
		m.yield(fr)
		k := wgKey{p}
		c, _ := m.aux[k].(int64)
		c += d
		if c < 0 {
			rtPanic("sync: negative WaitGroup counter")
		}
		m.aux[k] = c
	}
	reg("(*sync.WaitGroup).Add", func(fr *frame, args []value) value {
		wgAdd(fr, args[0].(*value), fr.cint(args[1]))
		return nil
	})
	reg("(*sync.WaitGroup).Done", func(fr *frame, args []value) value {
		wgAdd(fr, args[0].(*value), -1)
		return nil
	})
	reg("(*sync.WaitGroup).Wait", func(fr *frame, args []value) value {
		m := fr.m
		m.yield(fr)
		k := wgKey{args[0].(*value)}
		m.block(fr, "WaitGroup.Wait", func() bool { c, _ := m.aux[k].(int64); return c == 0 })
		return nil
	})
	reg("(*sync.WaitGroup).Go", func(fr *frame, args []value) value {
		m := fr.m
		p := args[0].(*value)
		wgAdd(fr, p, 1)
		f := args[1]
		m.spawn(fr, token.NoPos, &nativeFn{name: "wg.Go", f: func(fr2 *frame, _ []value) value {
			defer func() {
				if r := recover(); r != nil {
					panic(r)
				}
			}()
			fr2.m.call(fr2, token.NoPos, f, nil, nil)
			wgAdd(fr2, p, -1)
			return nil
		}}, nil)
		return nil
	})

	// Pool: Get returns New() (or nil); Put drops the object (no cross-request state).
	reg("(*sync.Pool).Get", func(fr *frame, args []value) value {
		p := args[0].(*value)
		st := (*p).(structure)
		idx := structFieldIndex(mustDeref(fr.fn.Signature.Recv().Type()), "New")
		if fr.m.opts.PoolReuse {
			k := poolKey{p}
			if lst, _ := fr.m.aux[k].([]value); len(lst) > 0 {
				v := lst[len(lst)-1]
				fr.m.aux[k] = lst[:len(lst)-1]
				return v
			}
		}
		newFn := st[idx]
		switch f := newFn.(type) {
		case *ssa.Function:
			if f == nil {
				return iface{}
			}
		}
		return fr.m.call(fr, token.NoPos, newFn, nil, nil)
	})
	reg("(*sync.Pool).Put", func(fr *frame, args []value) value {
		if fr.m.opts.PoolReuse {
			k := poolKey{args[0].(*value)}
			lst, _ := fr.m.aux[k].([]value)
			fr.m.aux[k] = append(lst, args[1])
		}
		return nil
	})

	// atomic.Value
	reg("(*sync/atomic.Value).Load", func(fr *frame, args []value) value {
		fr.m.yield(fr)
		v, ok := fr.m.aux[avKey{args[0].(*value)}].(iface)
		if !ok {
			return iface{}
		}
		return v
	})
	reg("(*sync/atomic.Value).Store", func(fr *frame, args []value) value {
		fr.m.yield(fr)
		v := args[1].(iface)
		if v.t == nil {
			rtPanic("sync/atomic: store of nil value into Value")
		}
		fr.m.aux[avKey{args[0].(*value)}] = v
		return nil
	})
	reg("(*sync/atomic.Value).Swap", func(fr *frame, args []value) value {
		fr.m.yield(fr)
		k := avKey{args[0].(*value)}
		old, ok := fr.m.aux[k].(iface)
		fr.m.aux[k] = args[1].(iface)
		if !ok {
			return iface{}
		}
		return old
	})
	reg("(*sync/atomic.Value).CompareAndSwap", func(fr *frame, args []value) value {
		fr.m.yield(fr)
		k := avKey{args[0].(*value)}
		cur, _ := fr.m.aux[k].(iface)
		old := args[1].(iface)
		if !fr.branch(fr.m.eqTerm(types.NewInterfaceType(nil, nil), cur, old)) {
			return false
		}
		fr.m.aux[k] = args[2].(iface)
		return true
	})

	// sync.Map
	smGet := func(fr *frame, p *value) *omap {
		k := smKey{p}
		if mp, ok := fr.m.aux[k].(*omap); ok {
			return mp
		}
		mp := makeMap(types.NewInterfaceType(nil, nil))
		fr.m.aux[k] = mp
		return mp
	}
	reg("(*sync.Map).Load", func(fr *frame, args []value) value {
		fr.m.yield(fr)
		mp := smGet(fr, args[0].(*value))
		if e := fr.mapFind(mp, args[1]); e != nil {
			return tuple{e.val, true}
		}
		return tuple{iface{}, false}
	})
	reg("(*sync.Map).Store", func(fr *frame, args []value) value {
		fr.m.yield(fr)
		fr.mapUpdate(smGet(fr, args[0].(*value)), args[1], args[2])
		return nil
	})
	reg("(*sync.Map).LoadOrStore", func(fr *frame, args []value) value {
		fr.m.yield(fr)
		mp := smGet(fr, args[0].(*value))
		if e := fr.mapFind(mp, args[1]); e != nil {
			return tuple{e.val, true}
		}
		fr.mapUpdate(mp, args[1], args[2])
		return tuple{args[2], false}
	})
	reg("(*sync.Map).LoadAndDelete", func(fr *frame, args []value) value {
		fr.m.yield(fr)
		mp := smGet(fr, args[0].(*value))
		if e := fr.mapFind(mp, args[1]); e != nil {
			v := e.val
			fr.mapDelete(mp, args[1])
			return tuple{v, true}
		}
		return tuple{iface{}, false}
	})
	reg("(*sync.Map).Delete", func(fr *frame, args []value) value {
		fr.m.yield(fr)
		fr.mapDelete(smGet(fr, args[0].(*value)), args[1])
		return nil
	})
	reg("(*sync.Map).Swap", func(fr *frame, args []value) value {
		fr.m.yield(fr)
		mp := smGet(fr, args[0].(*value))
		if e := fr.mapFind(mp, args[1]); e != nil {
			old := e.val
			e.val = args[2]
			return tuple{old, true}
		}
		fr.mapUpdate(mp, args[1], args[2])
		return tuple{iface{}, false}
	})
	reg("(*sync.Map).CompareAndSwap", func(fr *frame, args []value) value {
		fr.m.yield(fr)
		mp := smGet(fr, args[0].(*value))
		if e := fr.mapFind(mp, args[1]); e != nil {
			if fr.branch(fr.m.eqTerm(types.NewInterfaceType(nil, nil), e.val, args[2])) {
				e.val = args[3]
				return true
			}
		}
		return false
	})
	reg("(*sync.Map).CompareAndDelete", func(fr *frame, args []value) value {
		fr.m.yield(fr)
		mp := smGet(fr, args[0].(*value))
		if e := fr.mapFind(mp, args[1]); e != nil {
			if fr.branch(fr.m.eqTerm(types.NewInterfaceType(nil, nil), e.val, args[2])) {
				fr.mapDelete(mp, args[1])
				return true
			}
		}
		return false
	})
	reg("(*sync.Map).Range", func(fr *frame, args []value) value {
		fr.m.yield(fr)
		mp := smGet(fr, args[0].(*value))
		snapshot := append([]*mapEntry(nil), mp.entries...)
		for _, e := range snapshot {
			if e.deleted {
				continue
			}
			r := fr.m.call(fr, token.NoPos, args[1], []value{e.key, e.val}, nil)
			if b, ok := r.(bool); ok && !b {
				break
			}
		}
		return nil
	})
	reg("(*sync.Map).Clear", func(fr *frame, args []value) value {
		fr.m.yield(fr)
		delete(fr.m.aux, smKey{args[0].(*value)})
		return nil
	})

	// runtime semaphores are never reached because the primitives above are modelled.
	reg("sync.runtime_Semacquire sync.runtime_Semrelease sync.runtime_SemacquireMutex sync.runtime_SemacquireRWMutex sync.runtime_SemacquireRWMutexR sync.runtime_SemacquireWaitGroup", func(fr *frame, args []value) value {
		unsupported("runtime semaphore reached")
		return nil
	})
	reg("sync.runtime_registerPoolCleanup sync.runtime_procPin sync.runtime_procUnpin", func(fr *frame, args []value) value { return 0 })
	reg("sync.fatal sync.throw internal/sync.fatal internal/sync.throw", func(fr *frame, args []value) value {
		panic(targetPanic{v: errString("fatal error: " + strOf(args[0])), stack: fr.stack()})
	})
}

// atomicIntrinsic models sync/atomic's body-less functions on boxed cells.
func atomicIntrinsic(name string) intrinsicFn {
	cell := func(fr *frame, v value) *value {
		p, ok := v.(*value)
		if !ok {
			unsupported("atomic op on %T", v)
		}
		if p == nil {
			rtPanic("runtime error: invalid memory address or nil pointer dereference")
		}
		return p
	}
	switch {
	case strings.HasPrefix(name, "Load"):
		return func(fr *frame, args []value) value {
			fr.m.yield(fr)
			return *cell(fr, args[0])
		}
	case strings.HasPrefix(name, "Store"):
		return func(fr *frame, args []value) value {
			fr.m.yield(fr)
			*cell(fr, args[0]) = args[1]
			return nil
		}
	case strings.HasPrefix(name, "Swap") || strings.HasPrefix(name, "Xchg"):
		return func(fr *frame, args []value) value {
			fr.m.yield(fr)
			p := cell(fr, args[0])
			old := *p
			*p = args[1]
			return old
		}
	case strings.HasPrefix(name, "CompareAndSwap") || strings.HasPrefix(name, "Cas"):
		return func(fr *frame, args []value) value {
			fr.m.yield(fr)
			p := cell(fr, args[0])
			var eq *Term
			switch (*p).(type) {
			case uptr:
				eq = fr.m.tt.Bool(ptrIdent((*p).(uptr).p) == ptrIdent(args[1].(uptr).p))
			default:
				eq = fr.m.eqTerm(types.Typ[types.Int64], *p, args[1])
			}
			if fr.branch(eq) {
				*p = args[2]
				return true
			}
			return false
		}
	case strings.HasPrefix(name, "Add") || strings.HasPrefix(name, "Xadd"):
		return func(fr *frame, args []value) value {
			fr.m.yield(fr)
			p := cell(fr, args[0])
			nv := fr.binop(token.ADD, nil, *p, args[1])
			*p = nv
			return nv
		}
	case strings.HasPrefix(name, "And"):
		return func(fr *frame, args []value) value {
			fr.m.yield(fr)
			p := cell(fr, args[0])
			old := *p
			*p = fr.binop(token.AND, nil, old, args[1])
			return old
		}
	case strings.HasPrefix(name, "Or"):
		return func(fr *frame, args []value) value {
			fr.m.yield(fr)
			p := cell(fr, args[0])
			old := *p
			*p = fr.binop(token.OR, nil, old, args[1])
			return old
		}
	}
	return nil
}

// ---------------------------------------------------------------- fmt

// nativeArg converts an interpreted value into a host value good enough for fmt verbs.
func (m *Machine) nativeArg(fr *frame, v value, depth int) any {
	switch v := v.(type) {
	case iface:
		if v.t == nil {
			return nil
		}
		if depth < 3 {
			if f := m.methodOf(v.t, "Error"); f != nil && f.Signature.Params().Len() == 0 {
				if s, ok := m.safeCallString(fr, f, v.v); ok {
					return errors.New(s)
				}
			}
			if f := m.methodOf(v.t, "String"); f != nil && f.Signature.Params().Len() == 0 {
				if s, ok := m.safeCallString(fr, f, v.v); ok {
					return stringerStr(s)
				}
			}
		}
		// []byte
		if sl, ok := v.t.Underlying().(*types.Slice); ok {
			if b, ok := sl.Elem().Underlying().(*types.Basic); ok && b.Kind() == types.Byte {
				return nativeBytes(v.v.([]value))
			}
		}
		return m.nativeArg(fr, v.v, depth+1)
	case sym:
		return fmt.Sprintf("<sym:%s>", v.t.strDepth(2))
	case symstr:
		return symstrPlaceholder(v)
	case []value:
		out := make([]any, len(v))
		for i, e := range v {
			out[i] = m.nativeArg(fr, e, depth+1)
		}
		return out
	case structure:
		out := make([]any, len(v))
		for i, e := range v {
			out[i] = m.nativeArg(fr, e, depth+1)
		}
		return out
	case array:
		out := make([]any, len(v))
		for i, e := range v {
			out[i] = m.nativeArg(fr, e, depth+1)
		}
		return out
	case *value:
		if v == nil {
			return nil
		}
		return fmt.Sprintf("%p", v)
	case *omap:
		return toString(v)
	case bool, int, int8, int16, int32, int64, uint, uint8, uint16, uint32, uint64, uintptr, float32, float64, string, complex64, complex128:
		return v
	}
	return toString(v)
}

type stringerStr string

func (s stringerStr) String() string { return string(s) }

func nativeBytes(b []value) []byte {
	out := make([]byte, len(b))
	for i, e := range b {
		switch e := e.(type) {
		case uint8:
			out[i] = e
		default:
			out[i] = '?'
		}
	}
	return out
}

// symstrPlaceholder renders a symbolic string with '\x1a' for symbolic bytes; callers that
// need exact symbolic content use structural expansion instead (sprintfSym).
func symstrPlaceholder(s symstr) string {
	return string(nativeBytes(s.b))
}

func (m *Machine) safeCallString(fr *frame, f *ssa.Function, recv value) (s string, ok bool) {
	defer func() {
		if p := recover(); p != nil {
			if isEngineAbort(p) {
				if _, isAbort := p.(pathAbort); isAbort {
					panic(p)
				}
			}
			ok = false
		}
	}()
	r := m.callSSA(fr, token.NoPos, f, []value{copyVal(recv)}, nil)
	switch r := r.(type) {
	case string:
		return r, true
	case symstr:
		return symstrPlaceholder(r), true
	}
	return "", false
}

// sprintf formats with symbolic-string awareness: %s/%v/%d-free pieces are concrete, and a
// symstr argument under %s or %v is spliced in symbolically.
func (m *Machine) sprintf(fr *frame, format string, args []value) value {
	anySym := false
	for _, a := range args {
		if hasSymDeep(a) {
			anySym = true
			break
		}
	}
	if !anySym {
		nargs := make([]any, len(args))
		for i, a := range args {
			nargs[i] = m.nativeArg(fr, a, 0)
		}
		return fmt.Sprintf(format, nargs...)
	}
	// structural expansion
	var out []value
	ai := 0
	emit := func(s string) {
		for i := 0; i < len(s); i++ {
			out = append(out, s[i])
		}
	}
	for i := 0; i < len(format); {
		c := format[i]
		if c != '%' {
			out = append(out, c)
			i++
			continue
		}
		j := i + 1
		for j < len(format) && strings.IndexByte("+-# 0123456789.*", format[j]) >= 0 {
			j++
		}
		if j >= len(format) {
			emit(format[i:])
			break
		}
		verb := format[j]
		spec := format[i : j+1]
		i = j + 1
		if verb == '%' {
			out = append(out, byte('%'))
			continue
		}
		if ai >= len(args) {
			emit("%!" + string(verb) + "(MISSING)")
			continue
		}
		a := args[ai]
		ai++
		if sb, ok := symBytesOf(m, fr, a); ok && (verb == 's' || verb == 'v') && spec == "%"+string(verb) {
			out = append(out, sb...)
			continue
		}
		if hasSymDeep(a) {
			// opaque result: tainted symbolic bytes; a branch that depends on them is inconclusive
			for q := 0; q < 4; q++ {
				tv := m.freshVar("taint8_", 8)
				tv.taint = true
				out = append(out, sym{tv, types.Uint8})
			}
			continue
		}
		emit(fmt.Sprintf(spec, m.nativeArg(fr, a, 0)))
	}
	return mkstr(out)
}


func hasSymDeep(v value) bool {
	switch v := v.(type) {
	case sym, symstr:
		return true
	case iface:
		return hasSymDeep(v.v)
	case []value:
		for _, e := range v {
			if hasSymDeep(e) {
				return true
			}
		}
	case structure:
		for _, e := range v {
			if hasSymDeep(e) {
				return true
			}
		}
	case array:
		for _, e := range v {
			if hasSymDeep(e) {
				return true
			}
		}
	}
	return false
}

// symBytesOf returns the bytes of a (possibly symbolic) string / []byte argument.
func symBytesOf(m *Machine, fr *frame, a value) ([]value, bool) {
	if i, ok := a.(iface); ok {
		if i.t == nil {
			return nil, false
		}
		switch u := i.t.Underlying().(type) {
		case *types.Basic:
			if u.Kind() == types.String {
				return strBytes(i.v), true
			}
		case *types.Slice:
			if b, ok := u.Elem().Underlying().(*types.Basic); ok && b.Kind() == types.Byte {
				return i.v.([]value), true
			}
		}
		return nil, false
	}
	switch a := a.(type) {
	case string, symstr:
		return strBytes(a), true
	}
	return nil, false
}

func registerFmt(reg func(string, intrinsicFn)) {
	varargs := func(v value) []value {
		if v == nil {
			return nil
		}
		return v.([]value)
	}
	reg("fmt.Sprintf", func(fr *frame, args []value) value {
		return fr.m.sprintf(fr, strOf(args[0]), varargs(args[1]))
	})
	reg("fmt.Sprint", func(fr *frame, args []value) value {
		a := varargs(args[0])
		n := make([]any, len(a))
		for i := range a {
			n[i] = fr.m.nativeArg(fr, a[i], 0)
		}
		return fmt.Sprint(n...)
	})
	reg("fmt.Sprintln", func(fr *frame, args []value) value {
		a := varargs(args[0])
		n := make([]any, len(a))
		for i := range a {
			n[i] = fr.m.nativeArg(fr, a[i], 0)
		}
		return fmt.Sprintln(n...)
	})
	reg("fmt.Errorf", func(fr *frame, args []value) value {
		m := fr.m
		format := strOf(args[0])
		a := varargs(args[1])
		msg := m.sprintf(fr, strings.ReplaceAll(format, "%w", "%v"), a)
		// find %w operands
		var wrapped []value
		ai := 0
		for i := 0; i < len(format); i++ {
			if format[i] != '%' {
				continue
			}
			j := i + 1
			for j < len(format) && strings.IndexByte("+-# 0123456789.*", format[j]) >= 0 {
				j++
			}
			if j >= len(format) {
				break
			}
			if format[j] == '%' {
				i = j
				continue
			}
			if format[j] == 'w' && ai < len(a) {
				if e, ok := a[ai].(iface); ok && e.t != nil {
					wrapped = append(wrapped, e)
				}
			}
			ai++
			i = j
		}
		fmtPkg := m.prog.prog.ImportedPackage("fmt")
		if len(wrapped) == 1 && fmtPkg != nil && fmtPkg.Type("wrapError") != nil {
			t := fmtPkg.Type("wrapError").Type()
			var cell value = structure{msg, wrapped[0]}
			return iface{t: types.NewPointer(t), v: &cell}
		}
		if len(wrapped) > 1 && fmtPkg != nil && fmtPkg.Type("wrapErrors") != nil {
			t := fmtPkg.Type("wrapErrors").Type()
			var cell value = structure{msg, wrapped}
			return iface{t: types.NewPointer(t), v: &cell}
		}
		errPkg := m.prog.prog.ImportedPackage("errors")
		t := errPkg.Type("errorString").Type()
		var cell value = structure{msg}
		return iface{t: types.NewPointer(t), v: &cell}
	})
	writeTo := func(fr *frame, w value, s value) value {
		wi := w.(iface)
		if wi.t == nil {
			rtPanic("runtime error: invalid memory address or nil pointer dereference")
		}
		f := fr.m.methodOf(wi.t, "Write")
		b := append([]value(nil), strBytes(s)...)
		return fr.m.callSSA(fr, token.NoPos, f, []value{wi.v, b}, nil)
	}
	reg("fmt.Fprintf", func(fr *frame, args []value) value {
		return writeTo(fr, args[0], fr.m.sprintf(fr, strOf(args[1]), varargs(args[2])))
	})
	reg("fmt.Fprint", func(fr *frame, args []value) value {
		a := varargs(args[1])
		n := make([]any, len(a))
		for i := range a {
			n[i] = fr.m.nativeArg(fr, a[i], 0)
		}
		return writeTo(fr, args[0], fmt.Sprint(n...))
	})
	reg("fmt.Fprintln", func(fr *frame, args []value) value {
		a := varargs(args[1])
		n := make([]any, len(a))
		for i := range a {
			n[i] = fr.m.nativeArg(fr, a[i], 0)
		}
		return writeTo(fr, args[0], fmt.Sprintln(n...))
	})
	reg("fmt.Printf fmt.Println fmt.Print log.Printf log.Println log.Print", func(fr *frame, args []value) value {
		return tuple{0, iface{}}
	})
}
