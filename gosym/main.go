package main

import (
	"encoding/hex"
	"encoding/json"
	"flag"
	"fmt"
	"os"
	"sort"
	"strconv"

	"golang.org/x/tools/go/ssa"
	"strings"
)

func main() {
	if len(os.Args) < 2 {
		fmt.Fprintln(os.Stderr, "usage: gosym run|check|selftest ...")
		os.Exit(2)
	}
	os.Setenv("PATH", "/opt/veriftools/go1.26.8/bin:"+os.Getenv("PATH"))
	os.Setenv("GOTOOLCHAIN", "local")
	os.Setenv("GOFLAGS", "")
	os.Setenv("GOPROXY", "off")
	if v := os.Getenv("VERIF_ROOT"); v != "" {
		verifRoot = v
	}
	switch os.Args[1] {
	case "run":
		cmdRun(os.Args[2:])
	case "check":
		os.Exit(cmdCheck(os.Args[2:]))
	default:
		fmt.Fprintln(os.Stderr, "unknown command", os.Args[1])
		os.Exit(2)
	}
}

func cmdRun(argv []string) {
	fs := flag.NewFlagSet("run", flag.ExitOnError)
	spec := &RunSpec{}
	fs.StringVar(&spec.Dir, "dir", "v2", "module dir under /repo")
	fs.StringVar(&spec.Pkg, "pkg", "", "package pattern")
	harness := fs.String("harness", "", "comma separated harness files (relative to /verif/harness)")
	fs.StringVar(&spec.Entry, "entry", "", "entry function")
	args := fs.String("args", "", "comma separated integer args")
	fs.IntVar(&spec.Workers, "workers", 16, "workers")
	fs.IntVar(&spec.MaxPaths, "maxpaths", 0, "max paths")
	fs.IntVar(&spec.TimeoutS, "timeout", 600, "timeout seconds")
	fs.Int64Var(&spec.Budget, "budget", 0, "instruction budget per path")
	preempt := fs.Int("preempt", -1, "preemption bound (-1 unbounded)")
	fs.BoolVar(&spec.MapOrder, "maporder", false, "explore map iteration orders")
	fs.StringVar(&spec.Solver, "solver", "z3", "z3|z3-new|cvc5")
	fs.IntVar(&spec.Witnesses, "witnesses", 0, "witnesses to keep")
	verbose := fs.Bool("v", false, "print violations in detail")
	fixed := fs.String("fix", "", "comma separated nondet values: run one concrete path")
	fs.BoolVar(&spec.NoMerge, "nomerge", false, "disable merged evaluation of pure functions")
	fs.BoolVar(&spec.PoolReuse, "poolreuse", false, "sync.Pool hands back what was put (default: always New)")
	fs.Parse(argv)
	if *harness != "" {
		spec.Harness = strings.Split(*harness, ",")
	}
	if *args != "" {
		for _, a := range strings.Split(*args, ",") {
			n, err := strconv.ParseInt(a, 10, 64)
			if err != nil {
				fatal(err)
			}
			spec.Args = append(spec.Args, n)
		}
	}
	if *fixed != "" {
		for _, a := range strings.Split(*fixed, ",") {
			n, err := strconv.ParseUint(a, 0, 64)
			if err != nil {
				fatal(err)
			}
			spec.Fixed = append(spec.Fixed, n)
		}
	}
	if *preempt >= 0 {
		spec.Preempt = preempt
	}
	ld, err := LoadProgram(spec.Dir, spec.Pkg, spec.Harness)
	if err != nil {
		fatal(err)
	}
	entry := ld.Pkg.Func(spec.Entry)
	if entry == nil {
		fatal(fmt.Errorf("entry %s not found in %s", spec.Entry, ld.Pkg.Pkg.Path()))
	}
	if os.Getenv("GOSYM_PROFILE") != "" {
		profileSteps = map[*ssa.Function]int{}
		forkSites = map[string]int{}
		spec.Workers = 1
	}
	sum := Explore(ld.Prog, entry, spec)
	if profileSteps != nil {
		type kv struct {
			f *ssa.Function
			n int
		}
		var l []kv
		for f, n := range profileSteps {
			l = append(l, kv{f, n})
		}
		sort.Slice(l, func(i, j int) bool { return l[i].n > l[j].n })
		for i := 0; i < 25 && i < len(l); i++ {
			fmt.Fprintf(os.Stderr, "%10d %s\n", l[i].n, l[i].f)
		}
		var fk []string
		for k := range forkSites {
			fk = append(fk, k)
		}
		sort.Slice(fk, func(i, j int) bool { return forkSites[fk[i]] > forkSites[fk[j]] })
		for i := 0; i < 30 && i < len(fk); i++ {
			fmt.Fprintf(os.Stderr, "FORK %8d %s\n", forkSites[fk[i]], fk[i])
		}
	}
	out, _ := json.MarshalIndent(sum, "", " ")
	if !*verbose {
		// drop the long function list in non-verbose mode
		var mm map[string]any
		json.Unmarshal(out, &mm)
		mm["functions_encoded"] = len(sum.Functions)
		out, _ = json.MarshalIndent(mm, "", " ")
	}
	fmt.Println(string(out))
	for _, v := range sum.Violations {
		fmt.Printf("CEX kind=%s label=%q detail=%s\n    nondets=%v\n", v.Kind, v.Label, trunc(v.Detail, 300), compactND(v.Nondets))
		for _, o := range v.Obs {
			if i := strings.IndexByte(o, '='); i > 0 {
				if b, err := hex.DecodeString(o[i+1:]); err == nil && len(b) > 0 {
					fmt.Printf("    obs %s=%q\n", o[:i], b)
					continue
				}
			}
			fmt.Printf("    obs %s\n", o)
		}
	}
}

func fatal(err error) {
	fmt.Fprintln(os.Stderr, "gosym:", err)
	os.Exit(2)
}
