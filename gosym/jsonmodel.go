package main

// encoding/json model. The real package works through reflect, which the interpreter does not
// execute; Marshal/Unmarshal/Valid/Compact/Indent are modelled here from the static types
// (go/types) of the values involved, following encoding/json's documented rules: struct tags,
// omitempty, embedded structs, sorted map keys, base64 for []byte, Marshaler/Unmarshaler/
// TextMarshaler methods (called through the interpreter), HTML escaping, compaction of
// Marshaler output, case-insensitive field matching, first type error reported after a full
// decode. Symbolic bytes are supported inside marshalled strings only; everything else
// symbolic makes the path inconclusive. Error values are opaque errors.errorString values with
// the real messages (their concrete types are outside the model).

import (
	"bytes"
	"encoding/base64"
	"encoding/json"
	"fmt"
	"go/token"
	"go/types"
	"math"
	"reflect"
	"sort"
	"strconv"
	"strings"

	"golang.org/x/tools/go/ssa"
)

type jsonField struct {
	name      string
	index     []int
	typ       types.Type
	omitEmpty bool
	quoted    bool
	tagged    bool
}

func jsonTag(tag string) (name string, opts []string, skip bool) {
	v, ok := reflect.StructTag(tag).Lookup("json")
	if !ok {
		return "", nil, false
	}
	if v == "-" {
		return "", nil, true
	}
	parts := strings.Split(v, ",")
	return parts[0], parts[1:], false
}

// jsonFields lists the JSON-visible fields of a struct type following encoding/json's rules
// (exported or embedded, tag names, promoted fields of untagged embedded structs; on a name
// clash the shallowest wins, a tagged one among equals, otherwise all are dropped).
func jsonFields(t types.Type) []jsonField {
	type cand struct {
		f     jsonField
		depth int
	}
	var cands []cand
	var walk func(st *types.Struct, prefix []int, depth int, seen map[*types.Struct]bool)
	walk = func(st *types.Struct, prefix []int, depth int, seen map[*types.Struct]bool) {
		if seen[st] {
			return
		}
		seen[st] = true
		defer delete(seen, st)
		for i := 0; i < st.NumFields(); i++ {
			f := st.Field(i)
			ft := f.Type()
			if f.Anonymous() {
				et := ft
				if p, ok := et.Underlying().(*types.Pointer); ok {
					et = p.Elem()
				}
				if _, isStruct := et.Underlying().(*types.Struct); !f.Exported() && !isStruct {
					continue
				}
			} else if !f.Exported() {
				continue
			}
			name, opts, skip := jsonTag(st.Tag(i))
			if skip {
				continue
			}
			idx := append(append([]int(nil), prefix...), i)
			if f.Anonymous() && name == "" {
				et := ft
				if p, ok := et.Underlying().(*types.Pointer); ok {
					et = p.Elem()
				}
				if est, ok := et.Underlying().(*types.Struct); ok {
					walk(est, idx, depth+1, seen)
					continue
				}
			}
			jf := jsonField{name: name, index: idx, typ: ft, tagged: name != ""}
			if jf.name == "" {
				jf.name = f.Name()
			}
			for _, o := range opts {
				switch o {
				case "omitempty":
					jf.omitEmpty = true
				case "string":
					jf.quoted = true
				case "omitzero":
					unsupported("encoding/json model: omitzero")
				}
			}
			cands = append(cands, cand{jf, depth})
		}
	}
	st, ok := t.Underlying().(*types.Struct)
	if !ok {
		return nil
	}
	walk(st, nil, 0, map[*types.Struct]bool{})
	// resolve clashes
	byName := map[string][]cand{}
	var order []string
	for _, c := range cands {
		if _, ok := byName[c.f.name]; !ok {
			order = append(order, c.f.name)
		}
		byName[c.f.name] = append(byName[c.f.name], c)
	}
	var out []jsonField
	for _, n := range order {
		cs := byName[n]
		min := cs[0].depth
		for _, c := range cs {
			if c.depth < min {
				min = c.depth
			}
		}
		var best []cand
		for _, c := range cs {
			if c.depth == min {
				best = append(best, c)
			}
		}
		if len(best) > 1 {
			var tagged []cand
			for _, c := range best {
				if c.f.tagged {
					tagged = append(tagged, c)
				}
			}
			best = tagged
		}
		if len(best) == 1 {
			out = append(out, best[0].f)
		}
	}
	// encoding/json orders fields by index sequence
	sort.SliceStable(out, func(i, j int) bool {
		a, b := out[i].index, out[j].index
		for k := 0; k < len(a) && k < len(b); k++ {
			if a[k] != b[k] {
				return a[k] < b[k]
			}
		}
		return len(a) < len(b)
	})
	return out
}

type jsonEnc struct {
	fr         *frame
	out        []value
	escapeHTML bool
	err        value // first error (an error iface) from a Marshaler
}

func (e *jsonEnc) lit(s string) {
	for i := 0; i < len(s); i++ {
		e.out = append(e.out, s[i])
	}
}

func concreteBytes(b []value) ([]byte, bool) {
	out := make([]byte, len(b))
	for i, x := range b {
		c, ok := x.(uint8)
		if !ok {
			return nil, false
		}
		out[i] = c
	}
	return out, true
}

func bytesValue(b []byte) []value {
	out := make([]value, len(b))
	for i, c := range b {
		out[i] = c
	}
	return out
}

func isNilValue(v value) bool {
	switch v := v.(type) {
	case nil:
		return true
	case *value:
		return v == nil
	case *omap:
		return v == nil
	case []value:
		return v == nil
	case iface:
		return v.t == nil
	case uptr:
		return v.p == nil
	}
	return false
}

func jsonIsEmpty(v value) bool {
	switch v := v.(type) {
	case bool:
		return !v
	case string:
		return v == ""
	case symstr:
		return len(v.b) == 0
	case []value:
		return len(v) == 0
	case array:
		return len(v) == 0
	case *omap:
		return v.len() == 0
	case *value:
		return v == nil
	case iface:
		return v.t == nil
	case int, int8, int16, int32, int64, uint, uint8, uint16, uint32, uint64, uintptr, float32, float64:
		return reflect.ValueOf(v).IsZero()
	case sym:
		unsupported("encoding/json model: omitempty on a symbolic scalar")
	}
	return false
}

// hasMethod returns the method named name in the method set of t (nil if absent or of the wrong shape).
func (m *Machine) jsonMethod(t types.Type, name string) (fn valueFn, ptrRecv bool) {
	if types.IsInterface(t) {
		return nil, false
	}
	if f := m.methodOf(t, name); f != nil {
		return f, false
	}
	if _, isPtr := t.Underlying().(*types.Pointer); !isPtr {
		if f := m.methodOf(types.NewPointer(t), name); f != nil {
			return f, true
		}
	}
	return nil, false
}

type valueFn = *ssa.Function

func (e *jsonEnc) callMarshaler(fn valueFn, recv value) ([]value, bool) {
	r := e.fr.m.callSSA(e.fr, token.NoPos, fn, []value{recv}, nil).(tuple)
	if err, _ := r[1].(iface); err.t != nil {
		if e.err == nil {
			e.err = err
		}
		return nil, false
	}
	b, _ := r[0].([]value)
	return b, true
}

func (e *jsonEnc) encode(t types.Type, v value, addressable *value) {
	m := e.fr.m
	if e.err != nil {
		return
	}
	// nil pointers / interfaces first (a nil pointer with a Marshaler still encodes as null)
	switch x := v.(type) {
	case *value:
		if _, isPtr := t.Underlying().(*types.Pointer); isPtr && x == nil {
			e.lit("null")
			return
		}
	case iface:
		if types.IsInterface(t) {
			if x.t == nil {
				e.lit("null")
				return
			}
			e.encode(x.t, x.v, nil)
			return
		}
	}
	if fn, ptrRecv := m.jsonMethod(t, "MarshalJSON"); fn != nil {
		recv := v
		if ptrRecv {
			if addressable != nil {
				recv = addressable
			} else {
				cell := copyVal(v)
				recv = &cell
			}
		}
		b, ok := e.callMarshaler(fn, recv)
		if !ok {
			return
		}
		cb, conc := concreteBytes(b)
		if !conc {
			unsupported("encoding/json model: MarshalJSON returned symbolic bytes")
		}
		var buf bytes.Buffer
		if err := json.Compact(&buf, cb); err != nil {
			e.err = m.mkError("json: error calling MarshalJSON for type " + t.String() + ": " + err.Error())
			return
		}
		if e.escapeHTML {
			var esc bytes.Buffer
			json.HTMLEscape(&esc, buf.Bytes())
			buf = esc
		}
		e.out = append(e.out, bytesValue(buf.Bytes())...)
		return
	}
	if fn, ptrRecv := m.jsonMethod(t, "MarshalText"); fn != nil {
		recv := v
		if ptrRecv {
			cell := copyVal(v)
			recv = &cell
		}
		b, ok := e.callMarshaler(fn, recv)
		if !ok {
			return
		}
		e.out = append(e.out, m.jsonEncodeString(e.fr, b, e.escapeHTML)...)
		return
	}
	switch u := t.Underlying().(type) {
	case *types.Basic:
		switch x := v.(type) {
		case bool:
			if x {
				e.lit("true")
			} else {
				e.lit("false")
			}
		case string, symstr:
			e.out = append(e.out, m.jsonEncodeString(e.fr, strBytes(x), e.escapeHTML)...)
		case int, int8, int16, int32, int64:
			e.lit(strconv.FormatInt(reflect.ValueOf(x).Int(), 10))
		case uint, uint8, uint16, uint32, uint64, uintptr:
			e.lit(strconv.FormatUint(reflect.ValueOf(x).Uint(), 10))
		case float32, float64:
			f := reflect.ValueOf(x).Float()
			if math.IsInf(f, 0) || math.IsNaN(f) {
				e.err = m.mkError("json: unsupported value: " + strconv.FormatFloat(f, 'g', -1, 64))
				return
			}
			b, _ := json.Marshal(x)
			e.lit(string(b))
		case sym:
			unsupported("encoding/json model: marshalling a symbolic %s", u)
		default:
			unsupported("encoding/json model: basic value %T", v)
		}
	case *types.Pointer:
		p := v.(*value)
		e.encode(u.Elem(), load(u.Elem(), p), p)
	case *types.Struct:
		st := v.(structure)
		e.lit("{")
		first := true
		for _, f := range jsonFields(t) {
			fv, ft, ok := jsonFieldValue(t, st, f.index)
			if !ok {
				continue // nil embedded pointer
			}
			if f.omitEmpty && jsonIsEmpty(fv) {
				continue
			}
			if f.quoted {
				unsupported("encoding/json model: ,string option")
			}
			if !first {
				e.lit(",")
			}
			first = false
			e.out = append(e.out, m.jsonEncodeString(e.fr, strBytes(f.name), e.escapeHTML)...)
			e.lit(":")
			e.encode(ft, fv, nil)
		}
		e.lit("}")
	case *types.Map:
		mp, _ := v.(*omap)
		if mp == nil {
			e.lit("null")
			return
		}
		type kv struct {
			k string
			v value
		}
		var kvs []kv
		for _, ent := range mp.entries {
			if ent.deleted {
				continue
			}
			var ks string
			switch k := ent.key.(type) {
			case string:
				ks = k
			case int, int8, int16, int32, int64:
				ks = strconv.FormatInt(reflect.ValueOf(k).Int(), 10)
			case uint, uint8, uint16, uint32, uint64, uintptr:
				ks = strconv.FormatUint(reflect.ValueOf(k).Uint(), 10)
			default:
				unsupported("encoding/json model: map key %T", ent.key)
			}
			kvs = append(kvs, kv{ks, ent.val})
		}
		sort.Slice(kvs, func(i, j int) bool { return kvs[i].k < kvs[j].k })
		e.lit("{")
		for i, x := range kvs {
			if i > 0 {
				e.lit(",")
			}
			e.out = append(e.out, m.jsonEncodeString(e.fr, strBytes(x.k), e.escapeHTML)...)
			e.lit(":")
			e.encode(u.Elem(), x.v, nil)
		}
		e.lit("}")
	case *types.Slice:
		s, _ := v.([]value)
		if s == nil {
			e.lit("null")
			return
		}
		if eb, ok := u.Elem().Underlying().(*types.Basic); ok && eb.Kind() == types.Uint8 {
			if fn, _ := m.jsonMethod(u.Elem(), "MarshalJSON"); fn == nil {
				cb, conc := concreteBytes(s)
				if !conc {
					unsupported("encoding/json model: base64 of symbolic bytes")
				}
				e.lit(`"` + base64.StdEncoding.EncodeToString(cb) + `"`)
				return
			}
		}
		e.lit("[")
		for i := range s {
			if i > 0 {
				e.lit(",")
			}
			e.encode(u.Elem(), load(u.Elem(), &s[i]), &s[i])
		}
		e.lit("]")
	case *types.Array:
		a := v.(array)
		e.lit("[")
		for i := range a {
			if i > 0 {
				e.lit(",")
			}
			e.encode(u.Elem(), a[i], nil)
		}
		e.lit("]")
	case *types.Interface:
		x := v.(iface)
		if x.t == nil {
			e.lit("null")
			return
		}
		e.encode(x.t, x.v, nil)
	default:
		e.err = m.mkError("json: unsupported type: " + t.String())
	}
}

// jsonFieldValue follows an index path through embedded structs (and embedded pointers).
func jsonFieldValue(t types.Type, st structure, index []int) (value, types.Type, bool) {
	cur := value(st)
	ct := t
	for k, i := range index {
		if p, ok := ct.Underlying().(*types.Pointer); ok {
			pv := cur.(*value)
			if pv == nil {
				return nil, nil, false
			}
			cur = *pv
			ct = p.Elem()
		}
		s := cur.(structure)
		ft := ct.Underlying().(*types.Struct).Field(i).Type()
		cur = s[i]
		ct = ft
		_ = k
	}
	return cur, ct, true
}

func (m *Machine) mkError(msg string) value {
	errPkg := m.prog.prog.ImportedPackage("errors")
	if errPkg == nil || errPkg.Type("errorString") == nil {
		unsupported("encoding/json model: package errors not loaded")
	}
	t := errPkg.Type("errorString").Type()
	var cell value = structure{msg}
	return iface{t: types.NewPointer(t), v: &cell}
}

func (m *Machine) jsonMarshal(fr *frame, v iface, escapeHTML bool) ([]value, value) {
	e := &jsonEnc{fr: fr, escapeHTML: escapeHTML}
	if v.t == nil {
		e.lit("null")
	} else {
		e.encode(v.t, v.v, nil)
	}
	if e.err != nil {
		return nil, e.err
	}
	return e.out, nil
}

// ---------------------------------------------------------------- decoding

type jsonDec struct {
	fr  *frame
	err value // first type error
}

func (d *jsonDec) typeErr(what string, t types.Type) {
	if d.err != nil {
		return
	}
	m := d.fr.m
	jp := m.prog.prog.ImportedPackage("encoding/json")
	rp := m.prog.prog.ImportedPackage("reflect")
	if jp == nil || jp.Type("UnmarshalTypeError") == nil || rp == nil || rp.Type("rtype") == nil {
		d.err = m.mkError("json: cannot unmarshal " + what + " into Go value of type " + t.String())
		return
	}
	et := jp.Type("UnmarshalTypeError").Type()
	cell := zero(et)
	st := cell.(structure)
	st[structFieldIndex(et, "Value")] = what
	st[structFieldIndex(et, "Type")] = iface{t: types.NewPointer(rp.Type("rtype").Type()), v: reflectType{t}}
	d.err = iface{t: types.NewPointer(et), v: &cell}
}

// mkSyntaxError builds a *json.SyntaxError like the real decoder returns for malformed input.
func (m *Machine) mkSyntaxError(msg string, offset int64) value {
	jp := m.prog.prog.ImportedPackage("encoding/json")
	if jp == nil || jp.Type("SyntaxError") == nil {
		return m.mkError(msg)
	}
	et := jp.Type("SyntaxError").Type()
	cell := zero(et)
	st := cell.(structure)
	st[structFieldIndex(et, "msg")] = msg
	st[structFieldIndex(et, "Offset")] = offset
	return iface{t: types.NewPointer(et), v: &cell}
}

func jsonKind(raw []byte) byte {
	for _, c := range raw {
		switch c {
		case ' ', '\t', '\n', '\r':
			continue
		}
		switch {
		case c == '{', c == '[', c == '"', c == 't', c == 'f', c == 'n':
			return c
		default:
			return '0'
		}
	}
	return 0
}

var emptyIfaceType = types.NewInterfaceType(nil, nil).Complete()

func (d *jsonDec) generic(raw []byte) value {
	switch jsonKind(raw) {
	case 'n':
		return iface{}
	case 't':
		return iface{t: types.Typ[types.Bool], v: true}
	case 'f':
		return iface{t: types.Typ[types.Bool], v: false}
	case '"':
		var s string
		_ = json.Unmarshal(raw, &s)
		return iface{t: types.Typ[types.String], v: s}
	case '0':
		var f float64
		if err := json.Unmarshal(raw, &f); err != nil {
			d.typeErr("number "+strings.TrimSpace(string(raw)), types.Typ[types.Float64])
		}
		return iface{t: types.Typ[types.Float64], v: f}
	case '[':
		var elems []json.RawMessage
		_ = json.Unmarshal(raw, &elems)
		s := make([]value, len(elems))
		for i, e := range elems {
			s[i] = d.generic(e)
		}
		return iface{t: types.NewSlice(emptyIfaceType), v: s}
	case '{':
		keys, vals := jsonObjectEntries(raw)
		mp := makeMap(types.Typ[types.String])
		for i, k := range keys {
			d.fr.mapUpdate(mp, k, d.generic(vals[i]))
		}
		return iface{t: types.NewMap(types.Typ[types.String], emptyIfaceType), v: mp}
	}
	return iface{}
}

// jsonObjectEntries returns keys and raw values of an object in document order.
func jsonObjectEntries(raw []byte) ([]string, []json.RawMessage) {
	dec := json.NewDecoder(bytes.NewReader(raw))
	if _, err := dec.Token(); err != nil {
		return nil, nil
	}
	var keys []string
	var vals []json.RawMessage
	for dec.More() {
		kt, err := dec.Token()
		if err != nil {
			break
		}
		k, _ := kt.(string)
		var v json.RawMessage
		if err := dec.Decode(&v); err != nil {
			break
		}
		keys = append(keys, k)
		vals = append(vals, v)
	}
	return keys, vals
}

func (d *jsonDec) decode(t types.Type, raw []byte, addr *value) {
	m := d.fr.m
	kind := jsonKind(raw)
	// Unmarshaler on *T
	if !types.IsInterface(t) {
		if _, isPtr := t.Underlying().(*types.Pointer); !isPtr {
			if fn := m.methodOf(types.NewPointer(t), "UnmarshalJSON"); fn != nil {
				r := m.callSSA(d.fr, token.NoPos, fn, []value{addr, bytesValue(append([]byte(nil), raw...))}, nil)
				if err, _ := r.(iface); err.t != nil && d.err == nil {
					d.err = err
				}
				return
			}
			if kind == '"' {
				if fn := m.methodOf(types.NewPointer(t), "UnmarshalText"); fn != nil {
					var s string
					_ = json.Unmarshal(raw, &s)
					r := m.callSSA(d.fr, token.NoPos, fn, []value{addr, bytesValue([]byte(s))}, nil)
					if err, _ := r.(iface); err.t != nil && d.err == nil {
						d.err = err
					}
					return
				}
			}
		}
	}
	switch u := t.Underlying().(type) {
	case *types.Pointer:
		if kind == 'n' {
			*addr = (*value)(nil)
			return
		}
		p, _ := (*addr).(*value)
		if p == nil {
			cell := zero(u.Elem())
			p = &cell
			*addr = p
		}
		d.decode(u.Elem(), raw, p)
	case *types.Interface:
		if kind == 'n' {
			*addr = iface{}
			return
		}
		if u.NumMethods() != 0 {
			d.typeErr(jsonKindName(kind), t)
			return
		}
		// a non-nil pointer stored in the interface is decoded into (encoding/json's rule)
		if cur, ok := (*addr).(iface); ok && cur.t != nil {
			if pt, isPtr := cur.t.Underlying().(*types.Pointer); isPtr {
				if p, _ := cur.v.(*value); p != nil {
					d.decode(pt.Elem(), raw, p)
					return
				}
			}
		}
		*addr = d.generic(raw)
	case *types.Basic:
		if kind == 'n' {
			return
		}
		info := u.Info()
		switch {
		case info&types.IsBoolean != 0:
			if kind != 't' && kind != 'f' {
				d.typeErr(jsonKindName(kind), t)
				return
			}
			*addr = kind == 't'
		case info&types.IsString != 0:
			if kind != '"' {
				d.typeErr(jsonKindName(kind), t)
				return
			}
			var s string
			_ = json.Unmarshal(raw, &s)
			*addr = s
		case info&types.IsInteger != 0, info&types.IsFloat != 0:
			if kind != '0' {
				d.typeErr(jsonKindName(kind), t)
				return
			}
			rv := reflect.New(reflect.TypeOf(zero(u)))
			if err := json.Unmarshal(raw, rv.Interface()); err != nil {
				d.typeErr("number "+strings.TrimSpace(string(raw)), t)
				return
			}
			*addr = rv.Elem().Interface()
		default:
			unsupported("encoding/json model: decode into %s", t)
		}
	case *types.Slice:
		if kind == 'n' {
			*addr = []value(nil)
			return
		}
		if eb, ok := u.Elem().Underlying().(*types.Basic); ok && eb.Kind() == types.Uint8 && kind == '"' {
			var b []byte
			if err := json.Unmarshal(raw, &b); err != nil {
				if d.err == nil {
					d.err = m.mkError(err.Error())
				}
				return
			}
			*addr = bytesValue(b)
			return
		}
		if kind != '[' {
			d.typeErr(jsonKindName(kind), t)
			return
		}
		var elems []json.RawMessage
		_ = json.Unmarshal(raw, &elems)
		s := make([]value, len(elems))
		old, _ := (*addr).([]value)
		for i := range s {
			if i < len(old) {
				s[i] = old[i] // encoding/json reuses existing elements
			} else {
				s[i] = zero(u.Elem())
			}
			d.decode(u.Elem(), elems[i], &s[i])
		}
		*addr = s
	case *types.Array:
		if kind == 'n' {
			return
		}
		if kind != '[' {
			d.typeErr(jsonKindName(kind), t)
			return
		}
		var elems []json.RawMessage
		_ = json.Unmarshal(raw, &elems)
		a := (*addr).(array)
		for i := range a {
			if i < len(elems) {
				d.decode(u.Elem(), elems[i], &a[i])
			} else {
				a[i] = zero(u.Elem())
			}
		}
	case *types.Map:
		if kind == 'n' {
			*addr = (*omap)(nil)
			return
		}
		if kind != '{' {
			d.typeErr(jsonKindName(kind), t)
			return
		}
		kb, ok := u.Key().Underlying().(*types.Basic)
		if !ok || kb.Info()&types.IsString == 0 {
			unsupported("encoding/json model: decode into map with key %s", u.Key())
		}
		mp, _ := (*addr).(*omap)
		if mp == nil {
			mp = makeMap(u.Key())
			*addr = mp
		}
		keys, vals := jsonObjectEntries(raw)
		for i, k := range keys {
			cell := zero(u.Elem())
			d.decode(u.Elem(), vals[i], &cell)
			d.fr.mapUpdate(mp, k, cell)
		}
	case *types.Struct:
		if kind == 'n' {
			return
		}
		if kind != '{' {
			d.typeErr(jsonKindName(kind), t)
			return
		}
		fields := jsonFields(t)
		keys, vals := jsonObjectEntries(raw)
		for i, k := range keys {
			var f *jsonField
			for j := range fields {
				if fields[j].name == k {
					f = &fields[j]
					break
				}
			}
			if f == nil {
				for j := range fields {
					if strings.EqualFold(fields[j].name, k) {
						f = &fields[j]
						break
					}
				}
			}
			if f == nil {
				continue
			}
			if f.quoted {
				unsupported("encoding/json model: ,string option")
			}
			// walk to the field, allocating embedded pointers
			cur := addr
			ct := t
			for _, ix := range f.index {
				if p, ok := ct.Underlying().(*types.Pointer); ok {
					pv, _ := (*cur).(*value)
					if pv == nil {
						cell := zero(p.Elem())
						pv = &cell
						*cur = pv
					}
					cur = pv
					ct = p.Elem()
				}
				s := (*cur).(structure)
				cur = &s[ix]
				ct = ct.Underlying().(*types.Struct).Field(ix).Type()
			}
			d.decode(ct, vals[i], cur)
		}
	default:
		unsupported("encoding/json model: decode into %s", t)
	}
}

func jsonKindName(k byte) string {
	switch k {
	case '{':
		return "object"
	case '[':
		return "array"
	case '"':
		return "string"
	case 't', 'f':
		return "bool"
	case '0':
		return "number"
	}
	return "value"
}

func (m *Machine) jsonUnmarshal(fr *frame, data []value, dst iface) value {
	cb, ok := concreteBytes(data)
	if !ok {
		unsupported("encoding/json model: Unmarshal of symbolic bytes")
	}
	if !json.Valid(cb) {
		var x any
		err := json.Unmarshal(cb, &x)
		msg := "invalid JSON"
		var off int64
		if se, ok := err.(*json.SyntaxError); ok {
			msg, off = se.Error(), se.Offset
		} else if err != nil {
			msg = err.Error()
		}
		return m.mkSyntaxError(msg, off)
	}
	if dst.t == nil {
		return m.mkError("json: Unmarshal(nil)")
	}
	pt, isPtr := dst.t.Underlying().(*types.Pointer)
	p, _ := dst.v.(*value)
	if !isPtr || p == nil {
		return m.mkError("json: Unmarshal(non-pointer " + fmt.Sprint(dst.t) + ")")
	}
	d := &jsonDec{fr: fr}
	d.decode(pt.Elem(), cb, p)
	if d.err != nil {
		return d.err
	}
	return iface{}
}

// reflectType is the model of a reflect.Type value: only String() is supported.
type reflectType struct{ t types.Type }

func registerJSON(reg func(names string, f intrinsicFn)) {
	reg("reflect.TypeOf", func(fr *frame, args []value) value {
		v := args[0].(iface)
		if v.t == nil {
			return iface{}
		}
		rp := fr.fn.Pkg.Type("rtype")
		if rp == nil {
			unsupported("reflect.TypeOf: no rtype")
		}
		return iface{t: types.NewPointer(rp.Type()), v: reflectType{v.t}}
	})
	reg("(*reflect.rtype).String", func(fr *frame, args []value) value {
		rt, ok := args[0].(reflectType)
		if !ok {
			unsupported("reflect model: String on %T", args[0])
		}
		return types.TypeString(rt.t, func(p *types.Package) string { return p.Name() })
	})
	reg("encoding/json.Marshal", func(fr *frame, args []value) value {
		out, err := fr.m.jsonMarshal(fr, args[0].(iface), true)
		if err != nil {
			return tuple{[]value(nil), err}
		}
		return tuple{out, iface{}}
	})
	reg("encoding/json.MarshalIndent", func(fr *frame, args []value) value {
		out, err := fr.m.jsonMarshal(fr, args[0].(iface), true)
		if err != nil {
			return tuple{[]value(nil), err}
		}
		cb, ok := concreteBytes(out)
		if !ok {
			unsupported("encoding/json model: MarshalIndent of symbolic bytes")
		}
		var buf bytes.Buffer
		_ = json.Indent(&buf, cb, strOf(args[1]), strOf(args[2]))
		return tuple{bytesValue(buf.Bytes()), iface{}}
	})
	reg("encoding/json.Unmarshal", func(fr *frame, args []value) value {
		data, _ := args[0].([]value)
		return fr.m.jsonUnmarshal(fr, data, args[1].(iface))
	})
	// Decoder.Decode: the whole reader is read and must hold exactly one JSON value (streams of several values
	// are outside the model)
	reg("(*encoding/json.Decoder).Decode", func(fr *frame, args []value) value {
		dec := args[0].(*value)
		dt := mustDeref(fr.fn.Signature.Recv().Type())
		r := (*dec).(structure)[structFieldIndex(dt, "r")].(iface)
		ioPkg := fr.m.prog.prog.ImportedPackage("io")
		if ioPkg == nil || ioPkg.Func("ReadAll") == nil {
			unsupported("encoding/json model: io.ReadAll not available")
		}
		res := fr.m.callSSA(fr, token.NoPos, ioPkg.Func("ReadAll"), []value{r}, nil).(tuple)
		if e, _ := res[1].(iface); e.t != nil {
			return e
		}
		data, _ := res[0].([]value)
		if len(data) == 0 {
			eof := ioPkg.Var("EOF")
			return *fr.m.global(eof)
		}
		return fr.m.jsonUnmarshal(fr, data, args[1].(iface))
	})
	// Compact / Indent / HTMLEscape: computed natively on concrete bytes and written to the destination buffer
	// through its interpreted Write method
	writeBuf := func(fr *frame, dst value, out []byte) {
		bp := fr.m.prog.prog.ImportedPackage("bytes")
		bt := types.NewPointer(bp.Type("Buffer").Type())
		f := fr.m.methodOf(bt, "Write")
		fr.m.callSSA(fr, token.NoPos, f, []value{dst, bytesValue(out)}, nil)
	}
	reg("encoding/json.Compact", func(fr *frame, args []value) value {
		src, _ := args[1].([]value)
		cb, ok := concreteBytes(src)
		if !ok {
			unsupported("encoding/json model: Compact of symbolic bytes")
		}
		var buf bytes.Buffer
		if err := json.Compact(&buf, cb); err != nil {
			var off int64
			if se, ok := err.(*json.SyntaxError); ok {
				off = se.Offset
			}
			return fr.m.mkSyntaxError(err.Error(), off)
		}
		writeBuf(fr, args[0], buf.Bytes())
		return iface{}
	})
	reg("encoding/json.Indent", func(fr *frame, args []value) value {
		src, _ := args[1].([]value)
		cb, ok := concreteBytes(src)
		if !ok {
			unsupported("encoding/json model: Indent of symbolic bytes")
		}
		var buf bytes.Buffer
		if err := json.Indent(&buf, cb, strOf(args[2]), strOf(args[3])); err != nil {
			return fr.m.mkSyntaxError(err.Error(), 0)
		}
		writeBuf(fr, args[0], buf.Bytes())
		return iface{}
	})
	reg("encoding/json.HTMLEscape", func(fr *frame, args []value) value {
		src, _ := args[1].([]value)
		cb, ok := concreteBytes(src)
		if !ok {
			unsupported("encoding/json model: HTMLEscape of symbolic bytes")
		}
		var buf bytes.Buffer
		json.HTMLEscape(&buf, cb)
		writeBuf(fr, args[0], buf.Bytes())
		return nil
	})
	reg("encoding/json.Valid", func(fr *frame, args []value) value {
		data, _ := args[0].([]value)
		cb, ok := concreteBytes(data)
		if !ok {
			unsupported("encoding/json model: Valid of symbolic bytes")
		}
		return json.Valid(cb)
	})
}
