package main

import (
	"fmt"
	"go/ast"
	"go/token"
	"go/types"
	"os"
	"path/filepath"
	"strings"

	"golang.org/x/tools/go/packages"
	"golang.org/x/tools/go/ssa"
	"golang.org/x/tools/go/ssa/ssautil"
)

const repoRoot = "/repo"

var verifRoot = "/verif"

// noInitPkgs: packages whose init is never run (their globals stay zero). Everything
// else is initialised lazily on first use.
func noInitPkg(path string) bool {
	switch path {
	case "runtime", "os", "syscall", "reflect", "sync", "time", "log", "testing", "net", "net/http", "os/signal",
		"crypto/rand", "math/rand", "math/rand/v2", "internal/godebug", "internal/poll", "internal/cpu", "unsafe", "runtime/debug", "runtime/pprof", "runtime/trace",
		"internal/reflectlite", "internal/oserror", "io/fs", "path/filepath", "os/exec", "os/user", "flag", "crypto/tls", "crypto/x509",
		"internal/bisect", "internal/testlog", "internal/syscall/unix", "internal/syscall/execenv", "hash/maphash", "encoding/json", "unique", "weak", "iter", "internal/sync", "internal/synctest", "vendor/golang.org/x/sys/cpu":
		return true
	}
	if strings.HasPrefix(path, "runtime/") || strings.HasPrefix(path, "internal/runtime/") || strings.HasPrefix(path, "crypto/") || strings.HasPrefix(path, "net/") {
		return true
	}
	return false
}

// harnessOverlay maps harness files into the package directory as zz_verif_*.go, rewriting
// the package clause. It also adds the body-less declarations of the harness API.
func harnessOverlay(pkgDir, pkgName string, files []string, replay bool) (map[string][]byte, error) {
	ov := map[string][]byte{}
	for _, f := range files {
		// a harness file x.go may have a companion x_native.go: environment stubs whose bodies exist only in the
		// natively compiled replay (the engine intercepts the body-less declarations in x.go by name)
		if replay {
			companion := strings.TrimSuffix(f, ".go") + "_native.go"
			if nsrc, err := os.ReadFile(filepath.Join(verifRoot, "harness", companion)); err == nil {
				ns := strings.Replace(string(nsrc), "package PKG", "package "+pkgName, 1)
				ov[filepath.Join(pkgDir, "zz_verif_"+filepath.Base(companion))] = []byte(ns)
			}
		}
		src, err := os.ReadFile(filepath.Join(verifRoot, "harness", f))
		if err != nil {
			return nil, err
		}
		s := string(src)
		s = strings.Replace(s, "package PKG", "package "+pkgName, 1)
		if replay {
			// lines marked //engine-only (body-less stub declarations) are dropped in the native build
			var kept []string
			for _, line := range strings.Split(s, "\n") {
				if strings.HasSuffix(strings.TrimSpace(line), "//engine-only") {
					continue
				}
				kept = append(kept, line)
			}
			s = strings.Join(kept, "\n")
		}
		base := filepath.Base(f)
		if !strings.HasPrefix(base, "zz_verif_") {
			base = "zz_verif_" + base
		}
		ov[filepath.Join(pkgDir, base)] = []byte(s)
	}
	api := "zz_verif_nd.go"
	if replay {
		api = "zz_verif_nd_replay.go"
	}
	src, err := os.ReadFile(filepath.Join(verifRoot, "harness", "common", api))
	if err != nil {
		return nil, err
	}
	ov[filepath.Join(pkgDir, "zz_verif_nd.go")] = []byte(strings.Replace(string(src), "package PKG", "package "+pkgName, 1))
	return ov, nil
}

type Loaded struct {
	Prog   *Program
	Pkg    *ssa.Package
	PkgDir string
	Name   string
}

func goEnv() []string {
	var env []string
	for _, e := range os.Environ() {
		if strings.HasPrefix(e, "GOFLAGS=") || strings.HasPrefix(e, "PATH=") || strings.HasPrefix(e, "GOTOOLCHAIN=") || strings.HasPrefix(e, "GOWORK=") {
			continue
		}
		env = append(env, e)
	}
	env = append(env, "PATH=/opt/veriftools/go1.26.8/bin:"+os.Getenv("PATH"), "GOTOOLCHAIN=local", "GOPROXY=off", "GOSUMDB=off", "GOFLAGS=")
	return env
}

// pkgNameOf finds the package clause of a directory by loading names only.
func pkgNameOf(dir, pattern string) (string, string, error) {
	cfg := &packages.Config{Dir: dir, Mode: packages.NeedName | packages.NeedFiles, Env: goEnv()}
	pkgs, err := packages.Load(cfg, pattern)
	if err != nil {
		return "", "", err
	}
	if len(pkgs) != 1 {
		return "", "", fmt.Errorf("pattern %s matched %d packages", pattern, len(pkgs))
	}
	if len(pkgs[0].Errors) > 0 {
		return "", "", fmt.Errorf("%v", pkgs[0].Errors[0])
	}
	if len(pkgs[0].GoFiles) == 0 {
		return "", "", fmt.Errorf("no go files in %s", pattern)
	}
	return pkgs[0].Name, filepath.Dir(pkgs[0].GoFiles[0]), nil
}

func LoadProgram(moduleDir, pattern string, harness []string) (*Loaded, error) {
	dir := filepath.Join(repoRoot, moduleDir)
	name, pkgDir, err := pkgNameOf(dir, pattern)
	if err != nil {
		return nil, err
	}
	ov, err := harnessOverlay(pkgDir, name, harness, false)
	if err != nil {
		return nil, err
	}
	cfg := &packages.Config{
		Dir:     dir,
		Mode:    packages.LoadAllSyntax,
		Overlay: ov,
		Env:     goEnv(),
	}
	pkgs, err := packages.Load(cfg, pattern)
	if err != nil {
		return nil, err
	}
	var errs []string
	packages.Visit(pkgs, nil, func(p *packages.Package) {
		for _, e := range p.Errors {
			if strings.Contains(e.Msg, "missing function body") {
				continue
			}
			errs = append(errs, e.Error())
		}
	})
	if len(errs) > 0 {
		if len(errs) > 10 {
			errs = errs[:10]
		}
		return nil, fmt.Errorf("load errors:\n%s", strings.Join(errs, "\n"))
	}
	prog, spkgs := ssautil.AllPackages(pkgs, ssa.InstantiateGenerics|ssa.SanityCheckFunctions*0)
	prog.Build()
	if len(spkgs) != 1 || spkgs[0] == nil {
		return nil, fmt.Errorf("expected one root package, got %d", len(spkgs))
	}
	P := &Program{prog: prog, fset: prog.Fset, noInit: noInitPkg, embeds: collectEmbeds(pkgs)}
	if rt := prog.ImportedPackage("runtime"); rt != nil {
		runtimeErrorStringType = rt.Type("errorString").Object().Type()
	} else {
		// synthesise a named string type with an Error method substitute
		runtimeErrorStringType = types.Typ[types.String]
	}
	return &Loaded{Prog: P, Pkg: spkgs[0], PkgDir: pkgDir, Name: name}, nil
}


// collectEmbeds: //go:embed variables of type string or []byte (single file patterns). The gc
// toolchain fills them at link time; the interpreter reads the files from the package directory.
func collectEmbeds(pkgs []*packages.Package) map[types.Object][]byte {
	out := map[types.Object][]byte{}
	packages.Visit(pkgs, nil, func(p *packages.Package) {
		if p.TypesInfo == nil {
			return
		}
		for _, f := range p.Syntax {
			fname := p.Fset.Position(f.Pos()).Filename
			for _, d := range f.Decls {
				gd, ok := d.(*ast.GenDecl)
				if !ok || gd.Tok != token.VAR {
					continue
				}
				for _, sp := range gd.Specs {
					vs := sp.(*ast.ValueSpec)
					doc := vs.Doc
					if doc == nil && len(gd.Specs) == 1 {
						doc = gd.Doc
					}
					if doc == nil || len(vs.Names) != 1 {
						continue
					}
					for _, c := range doc.List {
						if !strings.HasPrefix(c.Text, "//go:embed ") {
							continue
						}
						pat := strings.Trim(strings.TrimSpace(strings.TrimPrefix(c.Text, "//go:embed ")), "\"")
						if strings.ContainsAny(pat, "*? ") {
							continue
						}
						data, err := os.ReadFile(filepath.Join(filepath.Dir(fname), pat))
						if err != nil {
							continue // a directory (embed.FS) or missing: left zero
						}
						if obj := p.TypesInfo.Defs[vs.Names[0]]; obj != nil {
							out[obj] = data
						}
					}
				}
			}
		}
	})
	return out
}
