package main

// gc evaluation order. The Go spec leaves the order of variable reads relative to
// function calls inside one statement unspecified; the gc compiler hoists all calls of a
// statement (in lexical order) and reads variables, fields and slice headers afterwards.
// go/ssa emits the loads first. The repository relies on gc's order in several places
// (`d.Refs[d.NextRefIndex()][:0]`, `s = append(s, T{Ref: p.parseX()})` where parseX
// appends to s). To execute what the compiled code executes, loads that precede a call of
// the same source statement (same basic block) are evaluated lazily: at their first
// demand by a call's operands, or right before the next non-call instruction.

import (
	"go/ast"
	"go/token"

	"golang.org/x/tools/go/ssa"
)

type stmtRange struct{ pos, end token.Pos }

// simpleStmtRanges collects the source ranges within which gc orders calls before reads.
func simpleStmtRanges(root ast.Node) []stmtRange {
	var out []stmtRange
	add := func(n ast.Node) {
		if n != nil && n.Pos().IsValid() {
			out = append(out, stmtRange{n.Pos(), n.End()})
		}
	}
	var body *ast.BlockStmt
	switch r := root.(type) {
	case *ast.FuncDecl:
		body = r.Body
	case *ast.FuncLit:
		body = r.Body
	}
	if body == nil {
		return nil
	}
	ast.Inspect(body, func(n ast.Node) bool {
		switch n := n.(type) {
		case *ast.FuncLit:
			return false // its own ssa.Function
		case *ast.AssignStmt, *ast.ExprStmt, *ast.ReturnStmt, *ast.IncDecStmt, *ast.SendStmt, *ast.GoStmt, *ast.DeferStmt:
			add(n)
		case *ast.DeclStmt:
			add(n)
		case *ast.IfStmt:
			if n.Cond != nil {
				add(n.Cond)
			}
		case *ast.ForStmt:
			if n.Cond != nil {
				add(n.Cond)
			}
		case *ast.SwitchStmt:
			if n.Tag != nil {
				add(n.Tag)
			}
		case *ast.CaseClause:
			for _, e := range n.List {
				add(e)
			}
		case *ast.RangeStmt:
			add(n.X)
		}
		return true
	})
	return out
}

func stmtIndex(rs []stmtRange, p token.Pos) int {
	if !p.IsValid() {
		return -1
	}
	best := -1
	for i, r := range rs {
		if r.pos <= p && p < r.end {
			// innermost
			if best < 0 || (rs[best].pos <= r.pos && r.end <= rs[best].end) {
				best = i
			}
		}
	}
	return best
}

func instrPos(ins ssa.Instruction) token.Pos {
	if p := ins.Pos(); p.IsValid() {
		return p
	}
	// loads emitted without a position: use the address computation's
	if u, ok := ins.(*ssa.UnOp); ok {
		if x, ok := u.X.(ssa.Instruction); ok {
			return x.Pos()
		}
	}
	return token.NoPos
}

func isRealCall(ins ssa.Instruction) bool {
	c, ok := ins.(*ssa.Call)
	if !ok {
		return false
	}
	if _, isBuiltin := c.Call.Value.(*ssa.Builtin); isBuiltin {
		return false
	}
	return true
}

// pureKind: instructions without side effects whose evaluation can be postponed.
func pureKind(ins ssa.Instruction) bool {
	switch ins := ins.(type) {
	case *ssa.UnOp:
		return ins.Op != token.ARROW
	case *ssa.FieldAddr, *ssa.IndexAddr, *ssa.Field, *ssa.Index, *ssa.Slice, *ssa.BinOp, *ssa.Convert, *ssa.ChangeType,
		*ssa.ChangeInterface, *ssa.MakeInterface, *ssa.Lookup, *ssa.TypeAssert, *ssa.Extract, *ssa.SliceToArrayPointer:
		return true
	case *ssa.Call:
		if b, ok := ins.Call.Value.(*ssa.Builtin); ok {
			switch b.Name() {
			case "len", "cap":
				return true
			}
		}
	}
	return false
}

// computeLazy marks, per function, the instructions to evaluate lazily.
func computeLazy(fn *ssa.Function) map[ssa.Instruction]bool {
	syn := fn.Syntax()
	if syn == nil || fn.Blocks == nil {
		return nil
	}
	rs := simpleStmtRanges(syn)
	if len(rs) == 0 {
		return nil
	}
	var lazy map[ssa.Instruction]bool
	for _, b := range fn.Blocks {
		// statement index per instruction
		n := len(b.Instrs)
		var st []int
		hasCall := false
		for _, ins := range b.Instrs {
			if isRealCall(ins) {
				hasCall = true
				break
			}
		}
		if !hasCall {
			continue
		}
		st = make([]int, n)
		for i, ins := range b.Instrs {
			st[i] = stmtIndex(rs, instrPos(ins))
		}
		for i, ins := range b.Instrs {
			// seeds: memory reads followed by a real call of the same statement
			isRead := false
			switch x := ins.(type) {
			case *ssa.UnOp:
				isRead = x.Op == token.MUL
			case *ssa.Lookup:
				isRead = true
			}
			seed := false
			if isRead && st[i] >= 0 {
				for j := i + 1; j < n; j++ {
					if isRealCall(b.Instrs[j]) && st[j] == st[i] {
						seed = true
						break
					}
				}
			}
			// dependents of lazy instructions are lazy when pure
			dep := false
			if !seed && lazy != nil && pureKind(ins) {
				var rands [8]*ssa.Value
				for _, op := range ins.Operands(rands[:0]) {
					if op == nil || *op == nil {
						continue
					}
					if oi, ok := (*op).(ssa.Instruction); ok && lazy[oi] && oi.Block() == b {
						dep = true
						break
					}
				}
			}
			if seed || dep {
				if lazy == nil {
					lazy = map[ssa.Instruction]bool{}
				}
				lazy[ins] = true
			}
		}
	}
	return lazy
}

// forcesAll: instructions with side effects or control transfer, before which every pending
// lazy instruction must have been evaluated. Everything else only forces what it uses.
func forcesAll(ins ssa.Instruction) bool {
	switch ins := ins.(type) {
	case *ssa.Store, *ssa.MapUpdate, *ssa.Send, *ssa.Select, *ssa.Go, *ssa.Defer, *ssa.RunDefers, *ssa.Panic,
		*ssa.Return, *ssa.If, *ssa.Jump, *ssa.Next, *ssa.Range:
		return true
	case *ssa.UnOp:
		return ins.Op == token.ARROW
	case *ssa.Call:
		if b, ok := ins.Call.Value.(*ssa.Builtin); ok {
			switch b.Name() {
			case "copy", "delete", "close", "clear", "panic", "recover":
				return true
			}
		}
	}
	return false
}

// forcePending evaluates pending lazy instructions. With demand == nil all of them (in
// original order); otherwise only those the demanding instruction depends on.
func (fr *frame) forcePending(demand ssa.Instruction) {
	if len(fr.pending) == 0 {
		return
	}
	if demand == nil {
		p := fr.pending
		fr.pending = nil
		for _, ins := range p {
			visitInstr(fr, ins)
		}
		return
	}
	need := map[ssa.Instruction]bool{}
	var mark func(ins ssa.Instruction)
	mark = func(ins ssa.Instruction) {
		var rands [8]*ssa.Value
		for _, op := range ins.Operands(rands[:0]) {
			if op == nil || *op == nil {
				continue
			}
			if oi, ok := (*op).(ssa.Instruction); ok && !need[oi] {
				for _, p := range fr.pending {
					if p == oi {
						need[oi] = true
						mark(oi)
						break
					}
				}
			}
		}
	}
	mark(demand)
	if len(need) == 0 {
		return
	}
	var rest []ssa.Instruction
	p := fr.pending
	fr.pending = nil
	var run []ssa.Instruction
	for _, ins := range p {
		if need[ins] {
			run = append(run, ins)
		} else {
			rest = append(rest, ins)
		}
	}
	fr.pending = rest
	for _, ins := range run {
		visitInstr(fr, ins)
	}
}
