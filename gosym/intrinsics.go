package main

// Engine intrinsics: the harness API (nondet*/verif*), models of functions
// that have no Go body (assembly, linkname) or that use reflect/unsafe, and
// the synchronisation primitives known to the scheduler.

import (
	"time"
	"fmt"
	"go/token"
	"go/types"
	"math"
	"math/bits"
	"sort"
	"strings"
	"unicode/utf8"
	"unsafe"

	"github.com/cespare/xxhash/v2"
	"golang.org/x/tools/go/ssa"
)

type intrinsicFn func(fr *frame, args []value) value

// nativeFn is a host closure callable from interpreted code.
type timerRec struct {
	cell    *value
	ch      *channel
	elem    types.Type
	fn      value
	fired   bool
	stopped bool
	ticker  bool
}

type nativeFn struct {
	name string
	f    func(fr *frame, args []value) value
}

var intrinsics = map[string]intrinsicFn{}

// intrinsicsByShortName matches body-less harness API functions in any package.
var harnessAPI = map[string]intrinsicFn{}

func findIntrinsic(fn *ssa.Function, name string) intrinsicFn {
	if f, ok := intrinsics[name]; ok {
		return f
	}
	if fn.Blocks == nil && fn.Parent() == nil {
		if f, ok := harnessAPI[fn.Name()]; ok {
			return f
		}
	}
	if fn.Pkg != nil && fn.Pkg.Pkg.Path() == "sync/atomic" && fn.Blocks == nil {
		return atomicIntrinsic(fn.Name())
	}
	if fn.Pkg != nil && fn.Blocks == nil {
		switch fn.Pkg.Pkg.Path() {
		case "internal/runtime/atomic":
			return atomicIntrinsic(fn.Name())
		}
	}
	// generic instantiations: match on origin name
	if o := fn.Origin(); o != nil {
		if f, ok := intrinsics[o.String()]; ok {
			return f
		}
	}
	return nil
}

func (m *Machine) freshVar(prefix string, w uint8) *Term {
	name := fmt.Sprintf("%s%d", prefix, m.ndCount)
	m.ndCount++
	t := m.tt.Var(name, w)
	m.ndVars = append(m.ndVars, t)
	m.pathVars = append(m.pathVars, t)
	return t
}

func (m *Machine) nondet(k types.BasicKind) value {
	w := kindWidth(k)
	if m.opts.Fixed != nil {
		// concrete mode (selftest / debugging): values come from a fixed vector
		var v uint64
		if m.fixedPos < len(m.opts.Fixed) {
			v = m.opts.Fixed[m.fixedPos]
		}
		m.fixedPos++
		m.ndLog = append(m.ndLog, ndEntry{conc: v, w: w, kind: "fixed"})
		return fromBits(k, v&maskB(w))
	}
	var t *Term
	if w == 0 {
		t = m.freshVar("p", 0)
	} else {
		t = m.freshVar(fmt.Sprintf("v%d_", w), w)
	}
	m.ndLog = append(m.ndLog, ndEntry{term: t, w: w})
	return sym{t, k}
}

type ndEntry struct {
	term *Term
	w    uint8
	conc uint64
	kind string
}

func init() {
	nd := func(k types.BasicKind) intrinsicFn {
		return func(fr *frame, args []value) value { return fr.m.nondet(k) }
	}
	harnessAPI["nondetBool"] = nd(types.Bool)
	harnessAPI["nondetByte"] = nd(types.Uint8)
	harnessAPI["nondetInt"] = nd(types.Int)
	harnessAPI["nondetInt8"] = nd(types.Int8)
	harnessAPI["nondetInt16"] = nd(types.Int16)
	harnessAPI["nondetInt32"] = nd(types.Int32)
	harnessAPI["nondetInt64"] = nd(types.Int64)
	harnessAPI["nondetUint"] = nd(types.Uint)
	harnessAPI["nondetUint16"] = nd(types.Uint16)
	harnessAPI["nondetUint32"] = nd(types.Uint32)
	harnessAPI["nondetUint64"] = nd(types.Uint64)
	harnessAPI["nondetBytes"] = func(fr *frame, args []value) value {
		n := fr.cint(args[0])
		r := make([]value, n)
		for i := range r {
			r[i] = fr.m.nondet(types.Uint8)
		}
		return r
	}
	harnessAPI["nondetChoice"] = func(fr *frame, args []value) value {
		n := int(fr.cint(args[0]))
		if fr.m.opts.Fixed != nil {
			var v uint64
			if fr.m.fixedPos < len(fr.m.opts.Fixed) {
				v = fr.m.opts.Fixed[fr.m.fixedPos]
			}
			fr.m.fixedPos++
			fr.m.ndLog = append(fr.m.ndLog, ndEntry{conc: v, w: 64, kind: "choice"})
			return int(v)
		}
		k := fr.m.choose(n)
		fr.m.ndLog = append(fr.m.ndLog, ndEntry{conc: uint64(k), w: 64, kind: "choice"})
		return k
	}
	harnessAPI["verifAssume"] = func(fr *frame, args []value) value {
		fr.m.assume(args[0])
		return nil
	}
	harnessAPI["verifAssert"] = func(fr *frame, args []value) value {
		fr.m.assert(fr, args[0], strOf(args[1]))
		return nil
	}
	harnessAPI["verifCover"] = func(fr *frame, args []value) value {
		fr.m.res.Covers[strOf(args[0])]++
		return nil
	}
	harnessAPI["verifYield"] = func(fr *frame, args []value) value {
		fr.m.yield(fr)
		return nil
	}
	harnessAPI["verifConcreteInt"] = func(fr *frame, args []value) value {
		if s, ok := args[0].(sym); ok {
			return fr.m.concretize(fr, s)
		}
		return args[0]
	}
	harnessAPI["verifConcreteByte"] = harnessAPI["verifConcreteInt"]
	harnessAPI["verifConcreteBytes"] = func(fr *frame, args []value) value {
		b := args[0].([]value)
		for i, e := range b {
			if s, ok := e.(sym); ok {
				b[i] = fr.m.concretize(fr, s)
			}
		}
		return nil
	}
	harnessAPI["verifIsSymbolic"] = func(fr *frame, args []value) value {
		return true
	}
	harnessAPI["verifObserveInt"] = func(fr *frame, args []value) value {
		fr.m.obsLog = append(fr.m.obsLog, obsEntry{label: strOf(args[0]), vals: []value{args[1]}, isInt: true})
		return nil
	}
	harnessAPI["verifObserveBytes"] = func(fr *frame, args []value) value {
		b := args[1].([]value)
		fr.m.obsLog = append(fr.m.obsLog, obsEntry{label: strOf(args[0]), vals: append([]value(nil), b...)})
		return nil
	}
	harnessAPI["verifObserveString"] = func(fr *frame, args []value) value {
		fr.m.obsLog = append(fr.m.obsLog, obsEntry{label: strOf(args[0]), vals: append([]value(nil), strBytes(args[1])...)})
		return nil
	}
	harnessAPI["verifTag"] = func(fr *frame, args []value) value {
		g := fr.m.cur
		g.tag = int(fr.cint(args[0]))
		if g.startGate > 0 && g.startGate <= len(fr.m.gates) {
			fr.m.gates[g.startGate-1].Park.G = g.tag
		}
		return &nativeFn{name: "verifTagDone", f: func(fr *frame, _ []value) value { return nil }}
	}
	harnessAPI["verifQuiesce"] = func(fr *frame, args []value) value {
		m := fr.m
		self := m.cur
		m.block(fr, "quiesce", func() bool {
			for _, g := range m.gs {
				if g != self && !g.done && (!g.blocked || (g.ready != nil && g.what != "quiesce" && g.ready())) {
					return false
				}
			}
			return true
		})
		return nil
	}
	harnessAPI["verifTerminates"] = func(fr *frame, args []value) value {
		// from here on, exceeding the given instruction budget is a termination violation
		fr.m.termLabel = strOf(args[1])
		fr.m.budget = fr.m.steps + fr.cint(args[0])
		return nil
	}
	// verifExplore(mapOrderBudget, sched): from here on explore map iteration orders (rotations; at most
	// mapOrderBudget non-default ones, -1 unlimited, 0 off) and goroutine schedules (sched != 0) or not.
	harnessAPI["verifExplore"] = func(fr *frame, args []value) value {
		n := fr.cint(args[0])
		fr.m.mapOrderOn = n != 0
		fr.m.mapBudget = int(n)
		fr.m.schedFixed = fr.cint(args[1]) == 0
		return nil
	}
	harnessAPI["verifNativeRepeat"] = func(fr *frame, args []value) value { return 1 }
	// zzStubConn: an upstream connection object that is never used for I/O (the protocol is stubbed); only Close is
	// reached, which is intercepted below. Natively the companion file dials a loopback websocket server.
	harnessAPI["zzStubConn"] = func(fr *frame, args []value) value {
		t := mustDeref(fr.fn.Signature.Results().At(0).Type())
		cell := zero(t)
		return &cell
	}
	harnessAPI["verifSetBudget"] = func(fr *frame, args []value) value {
		fr.m.budget = fr.cint(args[0])
		return nil
	}

	reg := func(names string, f intrinsicFn) {
		for _, n := range strings.Fields(names) {
			intrinsics[n] = f
		}
	}

	// ---- internal/bytealg (assembly on amd64)
	reg("internal/bytealg.IndexByte internal/bytealg.IndexByteString", func(fr *frame, args []value) value {
		var b []value
		switch x := args[0].(type) {
		case []value:
			b = x
		default:
			b = strBytes(x)
		}
		c := args[1]
		for i, e := range b {
			if fr.branch(fr.m.eqTerm(types.Typ[types.Uint8], e, c)) {
				return i
			}
		}
		return -1
	})
	reg("internal/bytealg.Count internal/bytealg.CountString", func(fr *frame, args []value) value {
		var b []value
		switch x := args[0].(type) {
		case []value:
			b = x
		default:
			b = strBytes(x)
		}
		c := args[1]
		n := 0
		for _, e := range b {
			if fr.branch(fr.m.eqTerm(types.Typ[types.Uint8], e, c)) {
				n++
			}
		}
		return n
	})
	reg("internal/bytealg.Compare", func(fr *frame, args []value) value {
		a, b := mkstr(args[0].([]value)), mkstr(args[1].([]value))
		return fr.m.cmp3(fr, a, b)
	})
	reg("internal/bytealg.CompareString", func(fr *frame, args []value) value {
		return fr.m.cmp3(fr, args[0], args[1])
	})
	reg("internal/bytealg.Equal", func(fr *frame, args []value) value {
		return mkval(fr.m.eqTerm(types.Typ[types.String], mkstr(args[0].([]value)), mkstr(args[1].([]value))), types.Bool)
	})
	reg("internal/bytealg.Index internal/bytealg.IndexString", func(fr *frame, args []value) value {
		var a, b []value
		switch x := args[0].(type) {
		case []value:
			a, b = x, args[1].([]value)
		default:
			a, b = strBytes(x), strBytes(args[1])
		}
		for i := 0; i+len(b) <= len(a); i++ {
			eq := fr.m.eqTerm(types.Typ[types.String], mkstr(a[i:i+len(b)]), mkstr(b))
			if fr.branch(eq) {
				return i
			}
		}
		return -1
	})
	reg("internal/bytealg.MakeNoZero", func(fr *frame, args []value) value {
		n := fr.cint(args[0])
		r := make([]value, n)
		for i := range r {
			r[i] = uint8(0)
		}
		return r
	})
	reg("internal/stringslite.Clone strings.Clone", func(fr *frame, args []value) value { return args[0] })
	reg("internal/abi.NoEscape internal/abi.Escape", func(fr *frame, args []value) value { return args[0] })
	reg("runtime.KeepAlive", func(fr *frame, args []value) value { return nil })
	reg("internal/race.Enable internal/race.Disable internal/race.Acquire internal/race.Release internal/race.ReleaseMerge internal/race.Read internal/race.Write internal/race.ReadRange internal/race.WriteRange", func(fr *frame, args []value) value { return nil })
	reg("internal/godebug.(*Setting).Value", func(fr *frame, args []value) value { return "" })
	reg("internal/godebug.(*Setting).IncNonDefault", func(fr *frame, args []value) value { return nil })

	// ---- math
	reg("internal/strconv.float64frombits", func(fr *frame, args []value) value { return math.Float64frombits(cu64(fr, args[0])) })
	reg("internal/strconv.float32frombits", func(fr *frame, args []value) value {
		return math.Float32frombits(uint32(cu64(fr, args[0])))
	})
	reg("internal/strconv.float64bits", func(fr *frame, args []value) value { return math.Float64bits(args[0].(float64)) })
	reg("internal/strconv.float32bits", func(fr *frame, args []value) value { return math.Float32bits(args[0].(float32)) })
	reg("math.Float64bits", func(fr *frame, args []value) value { return math.Float64bits(args[0].(float64)) })
	reg("math.Float64frombits", func(fr *frame, args []value) value { return math.Float64frombits(cu64(fr, args[0])) })
	reg("math.Float32bits", func(fr *frame, args []value) value { return math.Float32bits(args[0].(float32)) })
	reg("math.Float32frombits", func(fr *frame, args []value) value {
		return math.Float32frombits(uint32(cu64(fr, args[0])))
	})
	f1 := func(f func(float64) float64) intrinsicFn {
		return func(fr *frame, args []value) value { return f(args[0].(float64)) }
	}
	reg("math.Abs", f1(math.Abs))
	reg("math.Floor math.archFloor", f1(math.Floor))
	reg("math.Ceil math.archCeil", f1(math.Ceil))
	reg("math.Trunc math.archTrunc", f1(math.Trunc))
	reg("math.Sqrt math.archSqrt", f1(math.Sqrt))
	reg("math.Log math.archLog", f1(math.Log))
	reg("math.Exp math.archExp", f1(math.Exp))
	reg("math.Log2", f1(math.Log2))
	reg("math.Log10", f1(math.Log10))
	reg("math.IsNaN", func(fr *frame, args []value) value { return math.IsNaN(args[0].(float64)) })
	reg("math.IsInf", func(fr *frame, args []value) value { return math.IsInf(args[0].(float64), int(fr.cint(args[1]))) })
	reg("math.Inf", func(fr *frame, args []value) value { return math.Inf(int(fr.cint(args[0]))) })
	reg("math.NaN", func(fr *frame, args []value) value { return math.NaN() })
	reg("math.Pow", func(fr *frame, args []value) value { return math.Pow(args[0].(float64), args[1].(float64)) })
	reg("math.Mod", func(fr *frame, args []value) value { return math.Mod(args[0].(float64), args[1].(float64)) })
	reg("math.Modf math.archModf", func(fr *frame, args []value) value {
		a, b := math.Modf(args[0].(float64))
		return tuple{a, b}
	})
	reg("math.Frexp", func(fr *frame, args []value) value {
		a, b := math.Frexp(args[0].(float64))
		return tuple{a, b}
	})
	reg("math.Ldexp", func(fr *frame, args []value) value { return math.Ldexp(args[0].(float64), int(fr.cint(args[1]))) })
	reg("math.FMA", func(fr *frame, args []value) value {
		return math.FMA(args[0].(float64), args[1].(float64), args[2].(float64))
	})

	// ---- math/bits on concrete args go native (faster); symbolic args interpret the Go bodies.
	reg("math/bits.Mul64", func(fr *frame, args []value) value {
		if isSym(args[0]) || isSym(args[1]) {
			tt := fr.m.tt
			a, b := tt.ZExt(fr.m.term(args[0]), 64), tt.ZExt(fr.m.term(args[1]), 64)
			lo := tt.Bin(OpMul, a, b)
			// hi via 32-bit limbs
			m32 := tt.Const(0xffffffff, 64)
			sh := tt.Const(32, 64)
			a0, a1 := tt.Bin(OpBvAnd, a, m32), tt.Bin(OpLShr, a, sh)
			b0, b1 := tt.Bin(OpBvAnd, b, m32), tt.Bin(OpLShr, b, sh)
			w0 := tt.Bin(OpMul, a0, b0)
			t := tt.Bin(OpAdd, tt.Bin(OpMul, a1, b0), tt.Bin(OpLShr, w0, sh))
			w1 := tt.Bin(OpBvAnd, t, m32)
			w2 := tt.Bin(OpLShr, t, sh)
			w1 = tt.Bin(OpAdd, w1, tt.Bin(OpMul, a0, b1))
			hi := tt.Bin(OpAdd, tt.Bin(OpAdd, tt.Bin(OpMul, a1, b1), w2), tt.Bin(OpLShr, w1, sh))
			return tuple{mkval(hi, types.Uint64), mkval(lo, types.Uint64)}
		}
		hi, lo := bits.Mul64(cu64(fr, args[0]), cu64(fr, args[1]))
		return tuple{hi, lo}
	})

	// ---- runtime odds and ends
	reg("runtime.Gosched", func(fr *frame, args []value) value { fr.m.yield(fr); return nil })
	reg("runtime.GOMAXPROCS", func(fr *frame, args []value) value { return 4 })
	reg("runtime.NumCPU", func(fr *frame, args []value) value { return 4 })
	reg("runtime.GC runtime.SetFinalizer runtime.AddCleanup", func(fr *frame, args []value) value { return nil })
	reg("runtime.Callers", func(fr *frame, args []value) value { return 0 })
	reg("runtime.Caller", func(fr *frame, args []value) value { return tuple{uintptr(0), "", 0, false} })
	reg("runtime.Goexit", func(fr *frame, args []value) value { panic(goexitPanic{}) })
	reg("runtime.Stack", func(fr *frame, args []value) value { return 0 })
	reg("runtime/debug.Stack", func(fr *frame, args []value) value { return []value(nil) })
	reg("os.Getenv", func(fr *frame, args []value) value { return "" })
	reg("os.LookupEnv", func(fr *frame, args []value) value { return tuple{"", false} })
	reg("time.Sleep", func(fr *frame, args []value) value { fr.m.yield(fr); return nil })
	// timers and tickers fire only when the harness says so (verifFireTimers): the channel is real, nothing is sent
	// on it otherwise; a harness that never calls verifFireTimers states "timers never fire" as an assumption.
	mkTimer := func(fr *frame, typeName string, withChan bool, fn value, ticker bool) value {
		tn := fr.fn.Pkg.Type(typeName)
		t := tn.Type()
		cell := zero(t)
		rec := &timerRec{fn: fn, ticker: ticker}
		if withChan {
			st := cell.(structure)
			ci := structFieldIndex(t, "C")
			ct := t.Underlying().(*types.Struct).Field(ci).Type().Underlying().(*types.Chan)
			rec.ch = fr.m.newChan(1, ct.Elem())
			rec.elem = ct.Elem()
			st[ci] = rec.ch
		}
		p := &cell
		rec.cell = p
		fr.m.timers = append(fr.m.timers, rec)
		return p
	}
	reg("time.ParseDuration", func(fr *frame, args []value) value {
		d, err := time.ParseDuration(strOf(args[0]))
		if err != nil {
			return tuple{int64(0), fr.m.mkError(err.Error())}
		}
		return tuple{int64(d), iface{}}
	})
	reg("time.NewTicker", func(fr *frame, args []value) value { return mkTimer(fr, "Ticker", true, nil, true) })
	reg("time.NewTimer", func(fr *frame, args []value) value { return mkTimer(fr, "Timer", true, nil, false) })
	reg("time.AfterFunc", func(fr *frame, args []value) value { return mkTimer(fr, "Timer", false, args[1], false) })
	reg("time.After time.Tick", func(fr *frame, args []value) value {
		tm := mkTimer(fr, "Timer", true, nil, false).(*value)
		t := fr.fn.Pkg.Type("Timer").Type()
		return (*tm).(structure)[structFieldIndex(t, "C")]
	})
	stopTimer := func(fr *frame, args []value) value {
		p, _ := args[0].(*value)
		for _, rec := range fr.m.timers {
			if rec.cell == p {
				wasActive := !rec.fired && !rec.stopped
				rec.stopped = true
				return wasActive
			}
		}
		return false
	}
	reg("(*time.Ticker).Stop", func(fr *frame, args []value) value { stopTimer(fr, args); return nil })
	reg("(*time.Ticker).Reset", func(fr *frame, args []value) value { return nil })
	reg("(*time.Timer).Stop", stopTimer)
	reg("(*time.Timer).Reset", func(fr *frame, args []value) value {
		p, _ := args[0].(*value)
		for _, rec := range fr.m.timers {
			if rec.cell == p {
				wasActive := !rec.fired && !rec.stopped
				rec.fired, rec.stopped = false, false
				return wasActive
			}
		}
		return false
	})
	// verifFireTimers(): every pending timer expires now (channel timers deliver, AfterFunc functions start in their
	// own goroutine, tickers tick once); returns how many fired.
	harnessAPI["verifFireTimers"] = func(fr *frame, args []value) value {
		m := fr.m
		n := 0
		for _, rec := range append([]*timerRec(nil), m.timers...) {
			if rec.stopped || (rec.fired && !rec.ticker) {
				continue
			}
			rec.fired = true
			n++
			if rec.ch != nil {
				m.clock += 1000000
				m.trySend(rec.ch, zero(rec.elem))
			}
			if rec.fn != nil {
				m.spawn(fr, token.NoPos, rec.fn, nil)
			}
		}
		return n
	}
	reg("time.runtimeNano time.now runtime.nanotime", func(fr *frame, args []value) value {
		fr.m.clock += 1000
		return fr.m.clock
	})
	reg("time.Now", func(fr *frame, args []value) value {
		fr.m.clock += 1000
		// wall=hasMonotonic bit unset: ext holds seconds since year 1; keep it simple: wall=0, ext=clock seconds, loc=nil
		return structure{uint64(0), int64(63000000000 + fr.m.clock/1000), (*value)(nil)}
	})

	// ---- xxhash
	reg("github.com/cespare/xxhash/v2.Sum64", func(fr *frame, args []value) value {
		return fr.m.hash64("xxh", args[0].([]value))
	})
	reg("github.com/cespare/xxhash/v2.Sum64String", func(fr *frame, args []value) value {
		return fr.m.hash64("xxh", strBytes(args[0]))
	})
	reg("github.com/cespare/xxhash/v2.New", nil) // interpreted: New() calls Reset()
	delete(intrinsics, "github.com/cespare/xxhash/v2.New")
	reg("(*github.com/cespare/xxhash/v2.Digest).Reset", func(fr *frame, args []value) value {
		fr.m.aux[digestKey{args[0].(*value)}] = []value{}
		return nil
	})
	reg("(*github.com/cespare/xxhash/v2.Digest).Write", func(fr *frame, args []value) value {
		k := digestKey{args[0].(*value)}
		cur, _ := fr.m.aux[k].([]value)
		b := args[1].([]value)
		fr.m.aux[k] = append(cur, b...)
		return tuple{len(b), iface{}}
	})
	reg("(*github.com/cespare/xxhash/v2.Digest).WriteString", func(fr *frame, args []value) value {
		k := digestKey{args[0].(*value)}
		cur, _ := fr.m.aux[k].([]value)
		b := strBytes(args[1])
		fr.m.aux[k] = append(cur, b...)
		return tuple{len(b), iface{}}
	})
	reg("(*github.com/cespare/xxhash/v2.Digest).Sum64", func(fr *frame, args []value) value {
		k := digestKey{args[0].(*value)}
		cur, _ := fr.m.aux[k].([]value)
		return fr.m.hash64("xxh", cur)
	})

	// ---- reflectlite bits used by errors/sort/context
	reg("internal/reflectlite.Swapper reflect.Swapper", func(fr *frame, args []value) value {
		s := args[0].(iface).v.([]value)
		return &nativeFn{name: "swapper", f: func(fr *frame, a []value) value {
			i, j := fr.cint(a[0]), fr.cint(a[1])
			s[i], s[j] = s[j], s[i]
			return nil
		}}
	})
	sortSlice := func(stable bool) intrinsicFn {
		return func(fr *frame, args []value) value {
			s, _ := args[0].(iface).v.([]value)
			less := args[1]
			d := &interpSorter{fr: fr, s: s, less: less}
			if stable {
				sort.Stable(d)
			} else {
				sort.Sort(d)
			}
			return nil
		}
	}
	reg("sort.Slice", sortSlice(false))
	reg("sort.SliceStable", sortSlice(true))
	reg("sort.SliceIsSorted", func(fr *frame, args []value) value {
		s, _ := args[0].(iface).v.([]value)
		d := &interpSorter{fr: fr, s: s, less: args[1]}
		for i := len(s) - 1; i > 0; i-- {
			if d.Less(i, i-1) {
				return false
			}
		}
		return true
	})
	reg("errors.Is", func(fr *frame, args []value) value { return fr.m.errorsIs(fr, args[0].(iface), args[1].(iface)) })
	reg("errors.As", func(fr *frame, args []value) value { return fr.m.errorsAs(fr, args[0].(iface), args[1].(iface)) })

	// encoding/json: only Encoder.Encode of a string is modelled (RFC 8259 string encoding as Go's
	// encoder does it, followed by a newline); everything else in the package is unsupported.
	reg("(*encoding/json.Encoder).Encode", func(fr *frame, args []value) value {
		enc := args[0].(*value)
		et := mustDeref(fr.fn.Signature.Recv().Type())
		st := (*enc).(structure)
		w := st[structFieldIndex(et, "w")]
		escHTML, _ := st[structFieldIndex(et, "escapeHTML")].(bool)
		v := args[1].(iface)
		if v.t == nil {
			unsupported("json.Encoder.Encode(nil)")
		}
		var out []value
		if b, ok := v.t.Underlying().(*types.Basic); ok && b.Kind() == types.String {
			out = fr.m.jsonEncodeString(fr, strBytes(v.v), escHTML)
		} else {
			var merr value
			out, merr = fr.m.jsonMarshal(fr, v, escHTML)
			if merr != nil {
				return merr
			}
		}
		out = append(out, uint8('\n'))
		wi := w.(iface)
		f := fr.m.methodOf(wi.t, "Write")
		r := fr.m.callSSA(fr, token.NoPos, f, []value{wi.v, out}, nil).(tuple)
		return r[1]
	})

	// gjson / jsonparser unsafe helpers
	reg("github.com/tidwall/gjson.fillIndex", func(fr *frame, args []value) value {
		js := args[0]
		c := args[1].(*value)
		pt := mustDeref(fr.fn.Signature.Params().At(1).Type())
		st := (*c).(structure)
		vi := structFieldIndex(pt, "value")
		ci := structFieldIndex(pt, "calcd")
		res := st[vi].(structure)
		rt := pt.Underlying().(*types.Struct).Field(vi).Type()
		rawI := structFieldIndex(rt, "Raw")
		idxI := structFieldIndex(rt, "Index")
		raw := res[rawI]
		if strLen(raw) > 0 {
			if cal, _ := st[ci].(bool); !cal {
				jp, ok1 := strDataPtr(js)
				rp, ok2 := strDataPtr(raw)
				_, jsSym := js.(symstr)
				_, rawSym := raw.(symstr)
				if !ok1 || !ok2 || jsSym != rawSym {
					unsupported("gjson.fillIndex: cannot relate Raw to json (mixed string representations)")
				}
				idx := int(rp-jp)
				if jsSym {
					idx = int(rp-jp) / int(unsafe.Sizeof(value(nil)))
				}
				if idx < 0 || idx >= strLen(js) {
					idx = 0
				}
				res[idxI] = idx
			}
		}
		return nil
	})
	reg("github.com/tidwall/gjson.GetBytes", func(fr *frame, args []value) value {
		get := fr.fn.Pkg.Func("Get")
		return fr.m.callSSA(fr, token.NoPos, get, []value{mkstr(args[0].([]value)), args[1]}, nil)
	})
	reg("github.com/tidwall/gjson.stringBytes github.com/buger/jsonparser.StringToBytes", func(fr *frame, args []value) value {
		b := strBytes(args[0])
		return append(make([]value, 0, len(b)), b...)
	})
	reg("github.com/tidwall/gjson.bytesString", func(fr *frame, args []value) value {
		return mkstr(args[0].([]value))
	})

	// go-arena: every arena behaves like "no arena" (Alloc returns nil, so the library falls back to
	// new/make — its documented behaviour); arena lifetime bugs are outside every claim.
	reg("(*github.com/wundergraph/go-arena.monotonicArena).Alloc (*github.com/wundergraph/go-arena.concurrentArena).Alloc", func(fr *frame, args []value) value {
		return uptr{}
	})

	// go-arena Pool: Acquire hands out an item without arena (nil arena = plain make/new); Release is a no-op.
	reg("(*github.com/wundergraph/go-arena.Pool).Acquire", func(fr *frame, args []value) value {
		var cell value = structure{iface{}, args[1]}
		return &cell
	})
	reg("(*github.com/wundergraph/go-arena.Pool).Release (*github.com/wundergraph/go-arena.Pool).ReleaseMany", func(fr *frame, args []value) value {
		return nil
	})

	// context.WithValue: the real one checks key comparability through reflectlite
	reg("context.WithValue", func(fr *frame, args []value) value {
		parent := args[0].(iface)
		if parent.t == nil {
			rtPanic("cannot create context from nil parent")
		}
		if k := args[1].(iface); k.t == nil {
			rtPanic("nil key")
		}
		t := fr.fn.Pkg.Type("valueCtx").Type()
		var cell value = structure{parent, args[1], args[2]}
		return iface{t: types.NewPointer(t), v: &cell}
	})

	reg("(*github.com/coder/websocket.Conn).Close (*github.com/coder/websocket.Conn).CloseNow", func(fr *frame, args []value) value {
		return iface{}
	})
	registerSync(reg)
	registerFmt(reg)
	registerJSON(reg)
}

// jsonEncodeString: Go's encoding/json string encoding over possibly symbolic bytes (forking per
// byte class; the common class — printable ASCII other than quote and backslash — stays symbolic).
func (m *Machine) jsonEncodeString(fr *frame, b []value, escapeHTML bool) []value {
	const hex = "0123456789abcdef"
	tt := m.tt
	out := []value{uint8('"')}
	lit := func(s string) {
		for i := 0; i < len(s); i++ {
			out = append(out, s[i])
		}
	}
	for i := 0; i < len(b); i++ {
		e := b[i]
		c, conc := e.(uint8)
		if !conc {
			t := m.term(e)
			is := func(x byte) bool { return fr.branch(tt.Eq(t, tt.Const(uint64(x), 8))) }
			switch {
			case is('"'):
				c, conc = '"', true
			case is('\\'):
				c, conc = '\\', true
			case is('\n'):
				c, conc = '\n', true
			case is('\r'):
				c, conc = '\r', true
			case is('\t'):
				c, conc = '\t', true
			case fr.branch(tt.Bin(OpULt, t, tt.Const(0x20, 8))):
				// other control characters: \u00XX with symbolic hex digits
				lit("\\u00")
				hi := tt.Bin(OpLShr, t, tt.Const(4, 8))
				lo := tt.Bin(OpBvAnd, t, tt.Const(0xf, 8))
				hb := make([]value, 16)
				for k := 0; k < 16; k++ {
					hb[k] = hex[k]
				}
				out = append(out, mkval(m.selectTerm(hb, hi), types.Uint8), mkval(m.selectTerm(hb, lo), types.Uint8))
				continue
			case fr.branch(tt.Bin(OpULt, t, tt.Const(0x80, 8))):
				if escapeHTML && (is('<') || is('>') || is('&')) {
					unsupported("json escapeHTML on symbolic byte")
				}
				out = append(out, e)
				continue
			default:
				unsupported("json encoding of symbolic non-ASCII byte")
			}
		}
		switch {
		case c == '"':
			lit("\\\"")
		case c == '\\':
			lit("\\\\")
		case c == '\n':
			lit("\\n")
		case c == '\r':
			lit("\\r")
		case c == '\t':
			lit("\\t")
		case c == '\b':
			lit("\\b")
		case c == '\f':
			lit("\\f")
		case c < 0x20:
			lit("\\u00")
			out = append(out, hex[c>>4], hex[c&0xf])
		case c < 0x80:
			if escapeHTML && (c == '<' || c == '>' || c == '&') {
				lit("\\u00")
				out = append(out, hex[c>>4], hex[c&0xf])
			} else {
				out = append(out, c)
			}
		default:
			// concrete non-ASCII: decode one rune natively
			j := i
			var buf []byte
			for j < len(b) && j < i+4 {
				cb, ok := b[j].(uint8)
				if !ok {
					break
				}
				buf = append(buf, cb)
				j++
			}
			r, size := utf8.DecodeRune(buf)
			if r == utf8.RuneError && size == 1 {
				lit("\\ufffd")
			} else if r == 0x2028 || r == 0x2029 {
				lit("\\u202")
				out = append(out, hex[r&0xf])
				i += size - 1
			} else {
				for k := 0; k < size; k++ {
					out = append(out, buf[k])
				}
				i += size - 1
			}
		}
	}
	out = append(out, uint8('"'))
	return out
}

type digestKey struct{ p *value }

// interpSorter sorts an interpreted slice in place with an interpreted less function.
type interpSorter struct {
	fr   *frame
	s    []value
	less value
}

func (d *interpSorter) Len() int { return len(d.s) }
func (d *interpSorter) Swap(i, j int) { d.s[i], d.s[j] = d.s[j], d.s[i] }
func (d *interpSorter) Less(i, j int) bool {
	r := d.fr.m.call(d.fr, token.NoPos, d.less, []value{i, j}, nil)
	switch r := r.(type) {
	case bool:
		return r
	case sym:
		return d.fr.branch(r.t)
	}
	panic(engineError{"sort: less returned non-bool"})
}

func strOf(v value) string {
	switch v := v.(type) {
	case string:
		return v
	case symstr:
		if k, ok := normKey(v); ok {
			return k.(string)
		}
		return fmt.Sprintf("<symbolic string len %d>", len(v.b))
	}
	return toString(v)
}

// strDataPtr: identity of the first byte of a string value (host pointer), nil for empty.
func strDataPtr(v value) (uintptr, bool) {
	switch v := v.(type) {
	case string:
		if len(v) == 0 {
			return 0, false
		}
		return uintptr(unsafe.Pointer(unsafe.StringData(v))), true
	case symstr:
		if len(v.b) == 0 {
			return 0, false
		}
		return uintptr(unsafe.Pointer(unsafe.SliceData(v.b))), true
	}
	return 0, false
}

func cu64(fr *frame, v value) uint64 {
	if s, ok := v.(sym); ok {
		v = fr.m.concretize(fr, s)
	}
	return toBits(v)
}

// cmp3 returns -1/0/+1 comparing two strings, forking on symbolic outcomes.
func (m *Machine) cmp3(fr *frame, a, b value) value {
	if fr.branch(m.eqTerm(types.Typ[types.String], a, b)) {
		return 0
	}
	if fr.branch(m.strLess(a, b, false)) {
		return -1
	}
	return 1
}

// hash64 computes xxhash natively on concrete bytes, or applies an uninterpreted
// function (one per input length) on symbolic bytes.
func (m *Machine) hash64(name string, b []value) value {
	conc := true
	for _, e := range b {
		if _, ok := e.(uint8); !ok {
			conc = false
			break
		}
	}
	if conc {
		bs := make([]byte, len(b))
		for i, e := range b {
			bs[i] = e.(uint8)
		}
		return xxhash.Sum64(bs)
	}
	args := make([]*Term, len(b))
	for i, e := range b {
		args[i] = m.term(e)
	}
	m.usedUF = true
	return mkval(m.tt.UF(fmt.Sprintf("%s_%d", name, len(b)), 64, args), types.Uint64)
}

// ---------------------------------------------------------------- assume / assert

func (m *Machine) assume(c value) {
	switch c := c.(type) {
	case bool:
		if !c {
			panic(pathAbort{"assume-false"})
		}
	case sym:
		m.assumeTerm(c.t)
	}
}

func (m *Machine) assumeTerm(t *Term) {
	if t.IsTrue() {
		return
	}
	if t.IsFalse() {
		panic(pathAbort{"assume-false"})
	}
	if m.evalTerm(t) != 0 {
		m.addPC(t)
		return
	}
	// the witness model disagrees: ask for one that satisfies PC and t
	r, md := m.checkSat(t, false)
	switch r {
	case Sat:
		m.setModel(md)
		m.addPC(t)
	case Unsat:
		panic(pathAbort{"assume-false"})
	default:
		m.inconclusive("solver unknown on assume: " + m.solver.lastErr)
		panic(pathAbort{"assume-false"})
	}
}

func (m *Machine) assert(fr *frame, c value, label string) {
	m.res.Asserts++
	switch c := c.(type) {
	case bool:
		if !c {
			m.violation(fr, "assert", label, "")
			panic(pathAbort{"violation"})
		}
	case sym:
		t := c.t
		if m.dpos < len(m.trail) {
			// replaying a prefix: the ancestor path that first reached this assertion (with the
			// same path condition) has already discharged it
			m.assumeTerm(t)
			return
		}
		if m.evalTerm(t) == 0 {
			// the witness model itself violates the assertion
			m.violation(fr, "assert", label, "")
		} else {
			r, md := m.checkSat(t, true)
			switch r {
			case Sat:
				saved := m.model
				m.setModel(md)
				m.violation(fr, "assert", label, "")
				m.setModel(saved)
			case Unknown:
				m.inconclusive("solver unknown on assertion " + label + ": " + m.solver.lastErr)
			}
		}
		m.res.Obligations++
		// continue under the assumption that it holds
		m.assumeTerm(t)
	}
}

func (m *Machine) violation(fr *frame, kind, label, detail string) {
	v := Violation{Label: label, Kind: kind, Detail: detail, Model: cloneModel(m.model), Nondets: m.evalNondets(), Trail: append([]Decision(nil), m.trail[:m.dpos]...), Sched: append([]int(nil), m.sched...), Gates: append([]GateStep(nil), m.gates...)}
	if fr != nil {
		v.Detail += " @ " + fr.stack()
	}
	for _, o := range m.obsLog {
		v.Obs = append(v.Obs, fmtObs(m, o))
	}
	m.res.Violations = append(m.res.Violations, v)
}

func cloneModel(md Model) Model {
	r := make(Model, len(md))
	for k, v := range md {
		r[k] = v
	}
	return r
}

func (m *Machine) evalNondets() []NDVal {
	out := make([]NDVal, len(m.ndLog))
	for i, e := range m.ndLog {
		if e.term != nil {
			out[i] = NDVal{Name: e.term.name, W: e.w, V: m.evalTerm(e.term)}
		} else {
			out[i] = NDVal{Name: e.kind, W: e.w, V: e.conc}
		}
	}
	return out
}

// ---------------------------------------------------------------- errors.Is / errors.As

func (m *Machine) methodOf(t types.Type, name string) *ssa.Function {
	mset := m.prog.prog.MethodSets.MethodSet(t)
	for i := 0; i < mset.Len(); i++ {
		if mset.At(i).Obj().Name() == name {
			return m.prog.prog.MethodValue(mset.At(i))
		}
	}
	return nil
}

func (m *Machine) errorsIs(fr *frame, err, target iface) value {
	if err.t == nil || target.t == nil {
		return err.t == nil && target.t == nil
	}
	comparable := types.Comparable(target.t)
	var walk func(e iface) bool
	walk = func(e iface) bool {
		for {
			if e.t == nil {
				return false
			}
			if comparable && sameType(e.t, target.t) {
				eq := m.eqTerm(e.t, e.v, target.v)
				if fr.branch(eq) {
					return true
				}
			}
			if f := m.methodOf(e.t, "Is"); f != nil && f.Signature.Params().Len() == 1 && f.Signature.Results().Len() == 1 {
				if b, ok := f.Signature.Results().At(0).Type().Underlying().(*types.Basic); ok && b.Kind() == types.Bool {
					r := m.callSSA(fr, token.NoPos, f, []value{e.v, target}, nil)
					if rb, ok := r.(bool); ok && rb {
						return true
					}
				}
			}
			f := m.methodOf(e.t, "Unwrap")
			if f == nil || f.Signature.Params().Len() != 0 || f.Signature.Results().Len() != 1 {
				return false
			}
			r := m.callSSA(fr, token.NoPos, f, []value{e.v}, nil)
			switch r := r.(type) {
			case iface:
				e = r
			case []value:
				for _, x := range r {
					if walk(x.(iface)) {
						return true
					}
				}
				return false
			default:
				return false
			}
		}
	}
	return walk(err)
}

func (m *Machine) errorsAs(fr *frame, err, target iface) value {
	if err.t == nil {
		return false
	}
	if target.t == nil {
		rtPanic("errors: target cannot be nil")
	}
	pt, ok := target.t.Underlying().(*types.Pointer)
	if !ok {
		rtPanic("errors: target must be a non-nil pointer")
	}
	targetType := pt.Elem()
	dst := target.v.(*value)
	var walk func(e iface) bool
	walk = func(e iface) bool {
		for {
			if e.t == nil {
				return false
			}
			if it, ok := targetType.Underlying().(*types.Interface); ok {
				if types.Implements(e.t, it) {
					*dst = e
					return true
				}
			} else if types.Identical(e.t, targetType) {
				*dst = copyVal(e.v)
				return true
			}
			if f := m.methodOf(e.t, "As"); f != nil && f.Signature.Params().Len() == 1 {
				r := m.callSSA(fr, token.NoPos, f, []value{e.v, target}, nil)
				if rb, ok := r.(bool); ok && rb {
					return true
				}
			}
			f := m.methodOf(e.t, "Unwrap")
			if f == nil || f.Signature.Params().Len() != 0 || f.Signature.Results().Len() != 1 {
				return false
			}
			r := m.callSSA(fr, token.NoPos, f, []value{e.v}, nil)
			switch r := r.(type) {
			case iface:
				e = r
			case []value:
				for _, x := range r {
					if walk(x.(iface)) {
						return true
					}
				}
				return false
			default:
				return false
			}
		}
	}
	return walk(err)
}
