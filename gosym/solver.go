package main

// A persistent SMT solver process (z3 -in / cvc5 --incremental) fed SMT-LIB2.
// One per worker. Definitions and assertions of a path live inside one push
// scope and are popped at the end of the path.

import (
	"bufio"
	"fmt"
	"io"
	"os"
	"os/exec"
	"strconv"
	"strings"
	"time"
)

type SatResult int

const (
	Unsat SatResult = iota
	Sat
	Unknown
)

func (r SatResult) String() string { return [...]string{"unsat", "sat", "unknown"}[r] }

type SolverStats struct {
	Queries  int
	Sat      int
	Unsat    int
	Unknown  int
	Errors   int
	Time     time.Duration
	Restarts int
}

type Solver struct {
	kind    string // "z3", "z3-new", "cvc5"
	cmd     *exec.Cmd
	in      io.WriteCloser
	out     *bufio.Reader
	w       *bufio.Writer
	defined map[int32]bool
	declUF  map[string]bool
	nvars   int
	Stats   SolverStats
	log     io.Writer
	timeout int // ms per query
	paths   int
	lastErr  string
	levels   [][]int32
	ufLevels [][]string
	Epoch    int
}

func NewSolver(kind string, timeoutMs int) (*Solver, error) {
	s := &Solver{kind: kind, timeout: timeoutMs}
	if err := s.start(); err != nil {
		return nil, err
	}
	return s, nil
}

func (s *Solver) start() error {
	var cmd *exec.Cmd
	switch s.kind {
	case "z3", "":
		cmd = exec.Command("z3", "-in", "-smt2")
	case "z3-new":
		cmd = exec.Command("z3-new", "-in", "-smt2")
	case "cvc5":
		cmd = exec.Command("cvc5", "--incremental", "--lang=smt2", "--produce-models", fmt.Sprintf("--tlimit-per=%d", s.timeout))
	case "cvc5-int":
		// bit-vector arithmetic solved over the integers (keeps mod-2^k semantics): decides
		// multiply/divide-by-constant kernels that bit-blasting does not finish
		cmd = exec.Command("cvc5", "--incremental", "--lang=smt2", "--produce-models", "--solve-bv-as-int=sum", fmt.Sprintf("--tlimit-per=%d", s.timeout))
	default:
		return fmt.Errorf("unknown solver %q", s.kind)
	}
	in, err := cmd.StdinPipe()
	if err != nil {
		return err
	}
	out, err := cmd.StdoutPipe()
	if err != nil {
		return err
	}
	cmd.Stderr = nil
	if err := cmd.Start(); err != nil {
		return err
	}
	s.cmd, s.in, s.out, s.w = cmd, in, bufio.NewReaderSize(out, 1<<16), bufio.NewWriterSize(in, 1<<16)
	if strings.HasPrefix(s.kind, "cvc5") {
		s.send("(set-logic ALL)")
	} else {
		s.send("(set-option :produce-models true)")
		s.send(fmt.Sprintf("(set-option :timeout %d)", s.timeout))
	}
	s.defined = map[int32]bool{}
	s.declUF = map[string]bool{}
	s.levels = nil
	s.ufLevels = nil
	s.Epoch++
	if d := os.Getenv("GOSYM_SMTLOG"); d != "" && s.log == nil {
		solverSeq++
		f, err := os.Create(fmt.Sprintf("%s/solver-%d-%d.smt2", d, os.Getpid(), solverSeq))
		if err == nil {
			s.log = f
		}
	}
	return nil
}

var solverSeq int

func (s *Solver) Close() {
	if s.cmd != nil {
		s.in.Close()
		s.cmd.Process.Kill()
		s.cmd.Wait()
		s.cmd = nil
	}
}

func (s *Solver) send(line string) {
	if s.log != nil {
		fmt.Fprintln(s.log, line)
	}
	s.w.WriteString(line)
	s.w.WriteByte('\n')
}

// Push opens a new assertion level.
func (s *Solver) Push() {
	s.send("(push 1)")
	s.levels = append(s.levels, nil)
	s.ufLevels = append(s.ufLevels, nil)
}

// PopTo pops assertion levels until n remain, forgetting the definitions made in them.
func (s *Solver) PopTo(n int) {
	if n < 0 {
		n = 0
	}
	k := len(s.levels) - n
	if k <= 0 {
		return
	}
	s.send(fmt.Sprintf("(pop %d)", k))
	for len(s.levels) > n {
		top := len(s.levels) - 1
		for _, id := range s.levels[top] {
			delete(s.defined, id)
		}
		for _, u := range s.ufLevels[top] {
			delete(s.declUF, u)
		}
		s.levels = s.levels[:top]
		s.ufLevels = s.ufLevels[:top]
	}
}

func (s *Solver) Level() int { return len(s.levels) }

// Reset restarts the solver process (all state lost); Epoch changes.
func (s *Solver) Reset() {
	s.Close()
	s.Stats.Restarts++
	if err := s.start(); err != nil {
		panic(err)
	}
}

func (s *Solver) markDefined(id int32) {
	s.defined[id] = true
	if n := len(s.levels); n > 0 {
		s.levels[n-1] = append(s.levels[n-1], id)
	}
}

func tname(t *Term) string { return "t" + strconv.Itoa(int(t.id)) }

// define makes sure t (and everything below it) has a name in the solver.
func (s *Solver) define(tt *TermTable, t *Term) string {
	if t.op == OpConst {
		return constLit(t.val, t.w)
	}
	if s.defined[t.id] {
		if t.op == OpVar {
			return t.name
		}
		return tname(t)
	}
	// iterative post-order to avoid deep recursion on long chains
	type fr struct {
		t    *Term
		done bool
	}
	stack := []fr{{t, false}}
	for len(stack) > 0 {
		top := stack[len(stack)-1]
		stack = stack[:len(stack)-1]
		u := top.t
		if u.op == OpConst || s.defined[u.id] {
			continue
		}
		if !top.done {
			stack = append(stack, fr{u, true})
			for _, c := range []*Term{u.a, u.b, u.c} {
				if c != nil && c.op != OpConst && !s.defined[c.id] {
					stack = append(stack, fr{c, false})
				}
			}
			for _, c := range u.xs {
				if c.op != OpConst && !s.defined[c.id] {
					stack = append(stack, fr{c, false})
				}
			}
			continue
		}
		s.markDefined(u.id)
		switch u.op {
		case OpVar:
			s.send("(declare-const " + u.name + " " + sortName(u.w) + ")")
		default:
			if u.op == OpUF && !s.declUF[u.name] {
				s.declUF[u.name] = true
				if n := len(s.ufLevels); n > 0 {
					s.ufLevels[n-1] = append(s.ufLevels[n-1], u.name)
				}
				s.send(tt.ufs[u.name])
			}
			s.send("(define-fun " + tname(u) + " () " + sortName(u.w) + " " + u.body(s.ref) + ")")
		}
	}
	return s.ref(t)
}

func (s *Solver) ref(t *Term) string {
	switch t.op {
	case OpConst:
		return constLit(t.val, t.w)
	case OpVar:
		return t.name
	}
	return tname(t)
}

// Assert opens a new level and asserts t in it.
func (s *Solver) Assert(tt *TermTable, t *Term) {
	s.Push()
	n := s.define(tt, t)
	s.send("(assert " + n + ")")
}

func (s *Solver) readLine() (string, error) {
	for {
		line, err := s.out.ReadString('\n')
		if err != nil {
			return "", err
		}
		line = strings.TrimSpace(line)
		if line != "" {
			return line, nil
		}
	}
}

// Check asks whether the asserted path condition together with lit (negated if neg) is satisfiable.
// lit may be nil (check the path condition alone).
func (s *Solver) Check(tt *TermTable, lit *Term, neg bool) SatResult {
	start := time.Now()
	defer func() { s.Stats.Time += time.Since(start) }()
	s.Stats.Queries++
	if lit == nil {
		s.send("(check-sat)")
	} else {
		n := s.define(tt, lit)
		if neg {
			n = "(not " + n + ")"
		}
		s.send("(check-sat-assuming (" + n + "))")
	}
	s.w.Flush()
	line, err := s.readLine()
	if s.log != nil {
		fmt.Fprintf(s.log, "; -> %s in %v\n", line, time.Since(start))
	}
	if err != nil {
		s.Stats.Errors++
		s.Stats.Unknown++
		// solver died: restart, state lost -> unknown
		s.Close()
		if e := s.start(); e != nil {
			panic(e)
		}
		return Unknown
	}
	switch line {
	case "sat":
		s.Stats.Sat++
		return Sat
	case "unsat":
		s.Stats.Unsat++
		return Unsat
	case "unknown":
		s.Stats.Unknown++
		return Unknown
	default:
		// any (error ...) line is inconclusive
		s.Stats.Errors++
		s.Stats.Unknown++
		if s.log != nil {
			fmt.Fprintln(s.log, "; solver said: "+line)
		}
		if strings.HasPrefix(line, "(error") {
			// drain until we get a sat/unsat/unknown answer for this check
			for i := 0; i < 50; i++ {
				l2, err := s.readLine()
				if err != nil {
					break
				}
				if l2 == "sat" || l2 == "unsat" || l2 == "unknown" {
					break
				}
			}
		}
		s.lastErr = line
		return Unknown
	}
}


// ModelFor reads the values of the given variables after a sat answer.
func (s *Solver) ModelFor(vars []*Term) (Model, error) {
	m := Model{}
	var decl []*Term
	for _, v := range vars {
		if s.defined[v.id] {
			decl = append(decl, v)
		}
	}
	if len(decl) == 0 {
		return m, nil
	}
	var sb strings.Builder
	sb.WriteString("(get-value (")
	for _, v := range decl {
		sb.WriteString(v.name)
		sb.WriteByte(' ')
	}
	sb.WriteString("))")
	s.send(sb.String())
	s.w.Flush()
	// response: ((v1 #x00) (v2 true) ...) possibly over several lines
	var resp strings.Builder
	depth := 0
	started := false
	for {
		line, err := s.out.ReadString('\n')
		if err != nil {
			return nil, err
		}
		resp.WriteString(line)
		for _, ch := range line {
			if ch == '(' {
				depth++
				started = true
			} else if ch == ')' {
				depth--
			}
		}
		if started && depth <= 0 {
			break
		}
	}
	txt := resp.String()
	if strings.Contains(txt, "(error") {
		return nil, fmt.Errorf("solver error: %s", txt)
	}
	toks := tokenizeSexp(txt)
	// pattern: ( ( name value ) ( name value ) ... )
	for i := 0; i+3 < len(toks); i++ {
		if toks[i] == "(" && toks[i+1] != "(" && toks[i+3] == ")" {
			name, val := toks[i+1], toks[i+2]
			v, ok := parseLit(val)
			if ok {
				m[name] = v
			}
		} else if toks[i] == "(" && toks[i+1] != "(" && toks[i+2] == "(" {
			// (name (_ bv12 8))
			if i+6 < len(toks) && toks[i+3] == "_" && strings.HasPrefix(toks[i+4], "bv") {
				v, err := strconv.ParseUint(toks[i+4][2:], 10, 64)
				if err == nil {
					m[toks[i+1]] = v
				}
			}
		}
	}
	return m, nil
}

func tokenizeSexp(s string) []string {
	var toks []string
	cur := strings.Builder{}
	flush := func() {
		if cur.Len() > 0 {
			toks = append(toks, cur.String())
			cur.Reset()
		}
	}
	for _, ch := range s {
		switch ch {
		case '(', ')':
			flush()
			toks = append(toks, string(ch))
		case ' ', '\n', '\t', '\r':
			flush()
		default:
			cur.WriteRune(ch)
		}
	}
	flush()
	return toks
}

func parseLit(s string) (uint64, bool) {
	switch {
	case s == "true":
		return 1, true
	case s == "false":
		return 0, true
	case strings.HasPrefix(s, "#x"):
		v, err := strconv.ParseUint(s[2:], 16, 64)
		return v, err == nil
	case strings.HasPrefix(s, "#b"):
		v, err := strconv.ParseUint(s[2:], 2, 64)
		return v, err == nil
	}
	return 0, false
}
