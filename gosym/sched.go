package main

// Interpreted goroutines under an engine scheduler. Each interpreted goroutine
// is a host goroutine, but only the holder of the baton runs. Context switches
// happen at visible operations; the choice of who runs next is a decision.

import (
	"fmt"
	"go/token"
	"go/types"
	"path/filepath"
	"strings"
	"sync"

	"golang.org/x/tools/go/ssa"
)

type G struct {
	id      int
	wake    chan struct{}
	done    bool
	blocked bool
	ready   func() bool
	// channel wait state
	waitOps []chanOp
	doneIdx int
	doneVal value
	doneOk  bool
	what    string // description of what it blocks on
	daemon  bool
	tag     int               // logical id set by the harness (verifTag), default = id
	hits    map[string]int    // visible operations executed per source site
	pending *GateStep         // preempted here, not yet resumed
	started bool
	startGate int             // index+1 into m.gates of this goroutine's start step
}

// GateEvent: goroutine g (tag) at its hit-th execution of the visible operation at site,
// or its exit / blocking.
type GateEvent struct {
	G    int    `json:"g"`
	Kind string `json:"kind"` // site | exit | block
	Site string `json:"site,omitempty"`
	Hit  int    `json:"hit,omitempty"`
}

// GateStep: a preemptive context switch of the counterexample schedule: Park is held at its
// site until Until has happened.
type GateStep struct {
	Park  GateEvent `json:"park"`
	Until GateEvent `json:"until"`
}

// siteOf: the source position (base file name:line) of the visible operation the goroutine is about to
// execute, attributed to the innermost frame of the code under test (repo or harness file).
func (m *Machine) siteOf(fr *frame) string {
	pos := token.NoPos
	for f := fr; f != nil; f = f.caller {
		if f.fn == nil {
			break
		}
		var p token.Pos
		if f == fr && f.cur != nil {
			p = f.cur.Pos()
		}
		if isTargetFile(m.prog.fset.Position(f.fn.Pos()).Filename) && f.cur != nil {
			p = instrPos(f.cur)
			if !p.IsValid() {
				p = f.cur.Pos()
			}
			if p.IsValid() {
				pos = p
				break
			}
		}
		_ = p
	}
	if !pos.IsValid() {
		return ""
	}
	pp := m.prog.fset.Position(pos)
	return fmt.Sprintf("%s:%d", filepath.Base(pp.Filename), pp.Line)
}

func isTargetFile(name string) bool {
	return strings.HasPrefix(name, "/repo/")
}

// visit records the visible operation and returns its event.
func (m *Machine) visit(fr *frame, g *G) GateEvent {
	site := m.siteOf(fr)
	if g.hits == nil {
		g.hits = map[string]int{}
	}
	g.hits[site]++
	return GateEvent{G: g.tag, Kind: "site", Site: site, Hit: g.hits[site]}
}

// relinquish: self gives up the processor (event ev) and next runs; completes next's pending park.
func (m *Machine) relinquish(ev GateEvent, next *G) {
	if !next.started {
		// first run of next: natively its start is held until ev has happened
		next.started = true
		m.gates = append(m.gates, GateStep{Park: GateEvent{G: next.tag, Kind: "start"}, Until: ev})
		next.startGate = len(m.gates)
	}
	if next.pending != nil {
		next.pending.Until = ev
		m.gates = append(m.gates, *next.pending)
		next.pending = nil
	}
}

type chanOp struct {
	ch   *channel
	send bool
	val  value
}

type channel struct {
	buf    []value
	cap    int
	closed bool
	elem   types.Type
	id     int
}

type mutexState struct {
	locked  bool
	readers int
	owner   int
}

type syncMap[K comparable, V any] struct{ m sync.Map }

func (s *syncMap[K, V]) Load(k K) (V, bool) {
	v, ok := s.m.Load(k)
	if !ok {
		var z V
		return z, false
	}
	return v.(V), true
}
func (s *syncMap[K, V]) Store(k K, v V) { s.m.Store(k, v) }

// ---------------------------------------------------------------- goroutine lifecycle

type pathEnd struct {
	kind   string // done | abort | engine | panic | deadlock
	detail string
	p      any
}

func (m *Machine) spawn(fr *frame, pos token.Pos, fn value, args []value) {
	// possible context switch before the go statement takes effect (natively the replay gate sits
	// in front of the statement); the new goroutine can first run at the spawner's next visible operation
	m.yield(fr)
	g := &G{id: len(m.gs), wake: make(chan struct{}, 1), doneIdx: -1}
	g.tag = g.id
	m.gs = append(m.gs, g)
	m.startG(g, pos, fn, args)
}


func (m *Machine) startG(g *G, pos token.Pos, fn value, args []value) {
	m.hostWG.Add(1)
	go func() {
		defer m.hostWG.Done()
		// wait for the baton
		select {
		case <-g.wake:
		case <-m.abortCh:
			return
		}
		defer func() {
			p := recover()
			if p == nil {
				return
			}
			switch p := p.(type) {
			case pathAbort:
				if p.reason == "aborted" {
					return // woken by abort
				}
				m.finish(pathEnd{kind: "abort", detail: p.reason})
			case engineError:
				m.finish(pathEnd{kind: "engine", detail: p.msg})
			case targetPanic:
				m.finish(pathEnd{kind: "panic", detail: m.panicString(p), p: p})
			case goexitPanic:
				// runtime.Goexit: goroutine ends normally
				m.exitG(g)
			default:
				m.finish(pathEnd{kind: "engine", detail: fmt.Sprintf("host panic: %v", p)})
			}
		}()
		root := &frame{m: m, g: g}
		_ = root
		m.callFromG(g, pos, fn, args)
		m.exitG(g)
	}()
}

func (m *Machine) callFromG(g *G, pos token.Pos, fn value, args []value) value {
	switch fn := fn.(type) {
	case *ssa.Function:
		return m.callSSA(m.rootFrame(g), pos, fn, args, nil)
	case *closure:
		return m.callSSA(m.rootFrame(g), pos, fn.Fn, args, fn.Env)
	case *ssa.Builtin:
		return m.rootFrame(g).callBuiltin(fn, args, nil)
	case *nativeFn:
		return fn.f(m.rootFrame(g), args)
	}
	panic(engineError{fmt.Sprintf("go: cannot call %T", fn)})
}

// rootFrame is a pseudo frame so that callees always have a caller carrying g.
func (m *Machine) rootFrame(g *G) *frame {
	return &frame{m: m, g: g, fn: m.rootFn, info: m.prog.info(m.rootFn)}
}

func (m *Machine) finish(e pathEnd) {
	m.endOnce.Do(func() {
		m.end = e
		close(m.endCh)
	})
}

// exitG: the current goroutine returned.
func (m *Machine) exitG(g *G) {
	g.done = true
	if g.id == 0 {
		m.finish(pathEnd{kind: "done"})
		return
	}
	en := m.enabled(nil)
	if len(en) == 0 {
		m.deadlock()
		return
	}
	k := m.chooseG(en)
	m.relinquish(GateEvent{G: g.tag, Kind: "exit"}, en[k])
	m.handoff(en[k])
}

func (m *Machine) deadlock() {
	var desc string
	for _, g := range m.gs {
		if !g.done {
			desc += fmt.Sprintf("g%d blocked on %s; ", g.id, g.what)
		}
	}
	m.finish(pathEnd{kind: "deadlock", detail: desc})
}

// chooseG wraps choose so that scheduler decisions are recorded in the schedule trace.
func (m *Machine) chooseG(en []*G) int {
	if m.schedFixed {
		m.sched = append(m.sched, en[0].id)
		return 0
	}
	k := m.choose(len(en))
	m.sched = append(m.sched, en[k].id)
	return k
}

// enabled lists goroutines that can run, current (if given and runnable) first, then by id.
func (m *Machine) enabled(cur *G) []*G {
	var en []*G
	if cur != nil && !cur.done && (!cur.blocked || cur.ready()) {
		en = append(en, cur)
	}
	for _, g := range m.gs {
		if g == cur || g.done {
			continue
		}
		if !g.blocked || g.ready() {
			en = append(en, g)
		}
	}
	return en
}

// handoff gives the baton to g without parking the caller (caller is exiting).
func (m *Machine) handoff(g *G) {
	m.cur = g
	g.wake <- struct{}{}
}

// switchTo gives the baton to g and parks the current goroutine until it is scheduled again.
func (m *Machine) switchTo(self, g *G) {
	m.cur = g
	g.wake <- struct{}{}
	select {
	case <-self.wake:
	case <-m.abortCh:
		panic(pathAbort{"aborted"})
	}
}

// yield is a possible preemption point before a visible operation.
func (m *Machine) yield(fr *frame) {
	if len(m.gs) <= 1 {
		return
	}
	self := m.cur
	ev := m.visit(fr, self)
	en := m.enabled(self)
	if len(en) <= 1 {
		return
	}
	if m.schedFixed || (m.opts.MaxPreempt >= 0 && m.preempts >= m.opts.MaxPreempt) {
		return
	}
	k := m.chooseG(en)
	if en[k] != self {
		m.preempts++
		self.pending = &GateStep{Park: ev}
		m.relinquish(ev, en[k])
		m.switchTo(self, en[k])
	}
}

// block parks the current goroutine until ready() holds.
func (m *Machine) block(fr *frame, what string, ready func() bool) {
	self := m.cur
	if ready() {
		return
	}
	self.blocked = true
	self.ready = ready
	self.what = what
	for {
		en := m.enabled(nil)
		if len(en) == 0 {
			m.deadlock()
			// park forever (until abort)
			<-m.abortCh
			panic(pathAbort{"aborted"})
		}
		k := m.chooseG(en)
		if en[k] != self {
			m.relinquish(GateEvent{G: self.tag, Kind: "block"}, en[k])
			m.switchTo(self, en[k])
		}
		if ready() {
			break
		}
	}
	self.blocked = false
	self.ready = nil
}

func (m *Machine) panicString(p targetPanic) string {
	s := ""
	switch v := p.v.(type) {
	case iface:
		switch x := v.v.(type) {
		case string:
			s = x
			if v.t == runtimeErrorStringType {
				s = "runtime error: " + x
			}
		default:
			s = fmt.Sprintf("(%v) %s", v.t, toString(v.v))
			// try Error() method
			if v.t != nil {
				if msg, ok := m.tryErrorString(v); ok {
					s = msg
				}
			}
		}
	default:
		s = toString(p.v)
	}
	return s
}

// tryErrorString calls Error() on an interpreted error value, swallowing failures.
func (m *Machine) tryErrorString(v iface) (msg string, ok bool) {
	defer func() {
		if recover() != nil {
			ok = false
		}
	}()
	mset := m.prog.prog.MethodSets.MethodSet(v.t)
	sel := mset.Lookup(nil, "Error")
	if sel == nil {
		return "", false
	}
	f := m.prog.prog.MethodValue(sel)
	if f == nil {
		return "", false
	}
	r := m.callSSA(m.rootFrame(m.cur), token.NoPos, f, []value{v.v}, nil)
	if s, isStr := r.(string); isStr {
		return s, true
	}
	return "", false
}

// ---------------------------------------------------------------- channels

func (m *Machine) newChan(capacity int, elem types.Type) *channel {
	m.chanSeq++
	return &channel{cap: capacity, elem: elem, id: m.chanSeq}
}

// partner finds a parked goroutine waiting with a matching op on ch.
func (m *Machine) partner(ch *channel, wantSend bool) (*G, int) {
	for _, g := range m.gs {
		if g.done || !g.blocked || g.doneIdx >= 0 || g == m.cur {
			continue
		}
		for i, op := range g.waitOps {
			if op.ch == ch && op.send == wantSend {
				return g, i
			}
		}
	}
	return nil, -1
}

// trySend attempts a send without blocking.
func (m *Machine) trySend(ch *channel, v value) bool {
	if ch == nil {
		return false
	}
	if ch.closed {
		rtPanic("send on closed channel")
	}
	if g, i := m.partner(ch, false); g != nil && len(ch.buf) == 0 {
		g.doneIdx, g.doneVal, g.doneOk = i, v, true
		return true
	}
	if len(ch.buf) < ch.cap {
		ch.buf = append(ch.buf, v)
		return true
	}
	return false
}

// tryRecv attempts a receive without blocking.
func (m *Machine) tryRecv(ch *channel) (v value, ok bool, done bool) {
	if ch == nil {
		return nil, false, false
	}
	if len(ch.buf) > 0 {
		v = ch.buf[0]
		ch.buf = append([]value(nil), ch.buf[1:]...)
		// a parked sender can now move its value into the buffer
		if g, i := m.partner(ch, true); g != nil {
			ch.buf = append(ch.buf, g.waitOps[i].val)
			g.doneIdx, g.doneOk = i, true
		}
		return v, true, true
	}
	if g, i := m.partner(ch, true); g != nil {
		v = g.waitOps[i].val
		g.doneIdx, g.doneOk = i, true
		return v, true, true
	}
	if ch.closed {
		return zero(ch.elem), false, true
	}
	return nil, false, false
}

func (m *Machine) opReady(op chanOp) bool {
	ch := op.ch
	if ch == nil {
		return false
	}
	if op.send {
		if ch.closed {
			return true
		}
		if len(ch.buf) < ch.cap {
			return true
		}
		g, _ := m.partner(ch, false)
		return g != nil
	}
	if len(ch.buf) > 0 || ch.closed {
		return true
	}
	g, _ := m.partner(ch, true)
	return g != nil
}

func (m *Machine) chanSend(fr *frame, ch *channel, v value) {
	m.yield(fr)
	for {
		if m.trySend(ch, v) {
			return
		}
		self := m.cur
		self.waitOps = []chanOp{{ch: ch, send: true, val: v}}
		self.doneIdx = -1
		m.block(fr, fmt.Sprintf("send on chan#%d", chID(ch)), func() bool {
			return self.doneIdx >= 0 || m.opReady(self.waitOps[0])
		})
		self.waitOps = nil
		if self.doneIdx >= 0 {
			self.doneIdx = -1
			return
		}
	}
}

func chID(ch *channel) int {
	if ch == nil {
		return 0
	}
	return ch.id
}

func (m *Machine) chanRecv(fr *frame, instr *ssa.UnOp, ch *channel) value {
	m.yield(fr)
	var v value
	var ok bool
	for {
		var done bool
		v, ok, done = m.tryRecv(ch)
		if done {
			break
		}
		self := m.cur
		self.waitOps = []chanOp{{ch: ch}}
		self.doneIdx = -1
		m.block(fr, fmt.Sprintf("recv on chan#%d", chID(ch)), func() bool {
			return self.doneIdx >= 0 || m.opReady(self.waitOps[0])
		})
		self.waitOps = nil
		if self.doneIdx >= 0 {
			v, ok = self.doneVal, self.doneOk
			self.doneIdx = -1
			break
		}
	}
	if !ok {
		v = zero(instr.X.Type().Underlying().(*types.Chan).Elem())
	}
	if instr.CommaOk {
		return tuple{v, ok}
	}
	return v
}

func (m *Machine) chanClose(fr *frame, ch *channel) {
	m.yield(fr)
	if ch == nil {
		rtPanic("close of nil channel")
	}
	if ch.closed {
		rtPanic("close of closed channel")
	}
	ch.closed = true
}

func (m *Machine) chanSelect(fr *frame, instr *ssa.Select) value {
	m.yield(fr)
	ops := make([]chanOp, len(instr.States))
	for i, st := range instr.States {
		ch, _ := fr.get(st.Chan).(*channel)
		ops[i] = chanOp{ch: ch, send: st.Dir == types.SendOnly}
		if st.Send != nil {
			ops[i].val = fr.get(st.Send)
		}
	}
	chosen := -1
	var rv value
	rok := false
	for {
		var readyIdx []int
		for i, op := range ops {
			if m.opReady(op) {
				readyIdx = append(readyIdx, i)
			}
		}
		if len(readyIdx) > 0 {
			k := m.choose(len(readyIdx))
			chosen = readyIdx[k]
			op := ops[chosen]
			if op.send {
				if !m.trySend(op.ch, op.val) {
					panic(engineError{"select: ready send failed"})
				}
			} else {
				v, ok, done := m.tryRecv(op.ch)
				if !done {
					panic(engineError{"select: ready recv failed"})
				}
				rv, rok = v, ok
			}
			break
		}
		if !instr.Blocking {
			chosen = -1
			break
		}
		self := m.cur
		self.waitOps = ops
		self.doneIdx = -1
		m.block(fr, "select", func() bool {
			if self.doneIdx >= 0 {
				return true
			}
			for _, op := range ops {
				if m.opReady(op) {
					return true
				}
			}
			return false
		})
		self.waitOps = nil
		if self.doneIdx >= 0 {
			chosen = self.doneIdx
			rv, rok = self.doneVal, self.doneOk
			self.doneIdx = -1
			if ops[chosen].send {
				rv, rok = nil, false
			}
			break
		}
	}
	r := tuple{chosen, rok}
	for i, st := range instr.States {
		if st.Dir == types.RecvOnly {
			var v value
			if i == chosen && rok {
				v = rv
			} else {
				v = zero(st.Chan.Type().Underlying().(*types.Chan).Elem())
			}
			r = append(r, v)
		}
	}
	if chosen < 0 || ops[chosen].send {
		r[1] = false
	}
	return r
}

// noteWrite is the hook for the data-race check on plain stores (A-DRF); see race.go.
func (m *Machine) noteWrite(fr *frame, p *value) {}
