package main

// Path exploration: a shared LIFO work list of decision prefixes, N workers each
// with its own Machine (term table + solver process).

import (
	"encoding/hex"
	"fmt"
	"go/types"
	"os"
	"sort"
	"sync"
	"time"

	"golang.org/x/tools/go/ssa"
)

type obsEntry struct {
	label string
	vals  []value
	isInt bool
}

type RunSpec struct {
	Name       string   `json:"name"`       // harness id, e.g. H-C05a
	Dir        string   `json:"dir"`        // module dir under /repo, e.g. v2
	Pkg        string   `json:"pkg"`        // package pattern relative to Dir, e.g. ./pkg/lexer
	Harness    []string `json:"harness"`    // harness source files (relative to /verif/harness)
	Entry      string   `json:"entry"`      // function name
	Args       []int64  `json:"args"`       // integer arguments
	Workers    int      `json:"workers"`
	MaxPaths   int      `json:"max_paths"`
	TimeoutS   int      `json:"timeout_s"`
	Budget     int64    `json:"budget"`      // instructions per path
	Preempt    *int     `json:"preempt"`     // preemption bound (nil = unbounded)
	MapOrder   bool     `json:"map_order"`
	PoolReuse  bool     `json:"pool_reuse"`
	Covers     []string `json:"covers"`      // labels that must be reached (vacuity guard)
	Bounds     string   `json:"bounds"`      // human-readable bound statement
	Outside    string   `json:"outside"`
	Solver     string   `json:"solver"`
	Witnesses  int      `json:"witnesses"`   // number of path witnesses to replay natively
	SolverMs   int      `json:"solver_ms"`
	MaxDepth   int      `json:"max_depth"`
	Fixed      []uint64 `json:"fixed,omitempty"`
	NoMerge    bool     `json:"no_merge,omitempty"`
	classify   func(*Violation) string
}

type RunSummary struct {
	Spec          *RunSpec           `json:"spec"`
	Paths         int                `json:"paths"`
	PathsOK       int                `json:"paths_ok"`
	Infeasible    int                `json:"paths_assume_false"`
	Inconclusive  int                `json:"inconclusive_paths"`
	InconReasons  map[string]int     `json:"inconclusive_reasons,omitempty"`
	Decisions     int64              `json:"decisions"`
	Steps         int64              `json:"instructions"`
	Asserts       int64              `json:"assertions_checked"`
	Obligations   int64              `json:"symbolic_obligations"`
	Covers        map[string]int     `json:"cover"`
	MissingCovers []string           `json:"missing_covers,omitempty"`
	Violations    []*Violation       `json:"-"`
	ViolGroups    map[string]int     `json:"violation_groups,omitempty"`
	Solver        SolverStats        `json:"solver"`
	SolverTimeS   float64            `json:"solver_time_s"`
	WallS         float64            `json:"wall_s"`
	Truncated     string             `json:"truncated,omitempty"`
	Functions     []string           `json:"functions_encoded"`
	Witnesses     []*Witness         `json:"-"`
	Samples       []map[string]any   `json:"samples"`
	MaxTrail      int                `json:"max_trail"`
	UsedUF        bool               `json:"used_uf"`
}

// Witness is a completed path together with the concrete nondet vector and the
// engine-predicted observations, for native replay comparison.
type Witness struct {
	Nondets    []NDVal
	Obs        []string
	Covers     []string
	Concurrent bool // the path ran several goroutines: natively only assertion failures are compared
}

func fmtObs(m *Machine, o obsEntry) string {
	if o.isInt {
		v := o.vals[0]
		if s, ok := v.(sym); ok {
			v = fromBits(s.k, m.evalTerm(s.t))
		}
		return fmt.Sprintf("%s=%d", o.label, asInt64(v))
	}
	bs := make([]byte, len(o.vals))
	for i, e := range o.vals {
		switch e := e.(type) {
		case uint8:
			bs[i] = e
		case sym:
			bs[i] = byte(m.evalTerm(e.t))
		}
	}
	return fmt.Sprintf("%s=%s", o.label, hex.EncodeToString(bs))
}

// RunPath executes one work item.
func (m *Machine) RunPath(item WorkItem, entry *ssa.Function, args []value, emit func(WorkItem)) *PathResult {
	m.globals = map[*ssa.Global]*value{}
	m.inited = map[*ssa.Package]bool{}
	if m.tt == nil || len(m.tt.terms) > 400000 || m.solver.Epoch != m.epoch {
		m.tt = NewTermTable()
		if m.solver.Epoch == m.epoch {
			m.solver.Reset()
		}
		m.epoch = m.solver.Epoch
		m.prevPC, m.prevTrail, m.prevPCAt = nil, nil, nil
	}
	// how much of the previous path's condition is shared with this one?
	L := 0
	for L < len(item.Trail) && L < len(m.prevTrail) && sameDecision(item.Trail[L], m.prevTrail[L]) {
		L++
	}
	m.shared = 0
	if L > 0 && L <= len(m.prevPCAt) {
		if L < len(m.prevPCAt) {
			m.shared = m.prevPCAt[L]
		} else {
			m.shared = len(m.prevPC)
		}
		// an open value decision asserts exclusions that the previous run did not have
		if L < len(item.Trail) && item.Trail[L].Kind == dValue && L < len(m.prevPCAt) {
			m.shared = m.prevPCAt[L]
		}
	}
	if m.shared > m.solver.Level() {
		m.shared = m.solver.Level()
	}
	m.solver.PopTo(m.shared)
	m.pc = nil
	m.pcAt = nil
	m.pathVars = nil
	m.synced = m.shared
	m.trail = append([]Decision(nil), item.Trail...)
	m.dpos = 0
	md := item.Model
	if md == nil {
		md = Model{}
	} else {
		md = cloneModel(md)
	}
	m.setModel(md)
	m.steps = 0
	m.budget = m.opts.Budget
	m.depth = 0
	m.ndCount = 0
	m.ndVars = nil
	m.ndLog = nil
	m.obsLog = nil
	m.preempts = 0
	m.timers = nil
	m.mapOrderOn = m.opts.MapOrder
	m.mapBudget = -1
	m.schedFixed = false
	m.res = &PathResult{Status: "ok", Covers: map[string]int{}}
	m.emit = emit
	m.gs = nil
	m.mutexes = map[*value]*mutexState{}
	m.aux = map[any]any{}
	m.sched = nil
	m.clock = 0
	m.chanSeq = 0
	m.usedUF = false
	m.fixedPos = 0
	m.termLabel = ""
	m.gates = nil
	m.abortCh = make(chan struct{})
	m.endCh = make(chan struct{})
	m.endOnce = sync.Once{}
	m.rootFn = entry

	g0 := &G{id: 0, wake: make(chan struct{}, 1), doneIdx: -1, started: true}
	m.gs = append(m.gs, g0)
	m.cur = g0
	m.startG(g0, entry.Pos(), entry, args)
	g0.wake <- struct{}{}
	<-m.endCh
	close(m.abortCh)
	m.hostWG.Wait()

	res := m.res
	switch m.end.kind {
	case "done":
	case "abort":
		switch m.end.detail {
		case "assume-false":
			if res.Status == "ok" {
				res.Status = "assume-false"
			}
		case "violation":
			// recorded already
		case "budget":
			if m.termLabel != "" {
				m.violation(nil, "nontermination", m.termLabel, "instruction bound exceeded after verifTerminates")
			} else {
				res.Status = "inconclusive"
				res.Reason = "instruction budget exceeded"
			}
		case "decision-depth":
			res.Status = "inconclusive"
			res.Reason = "decision depth bound exceeded"
		default:
			res.Status = "inconclusive"
			res.Reason = "abort: " + m.end.detail
		}
	case "engine":
		res.Status = "inconclusive"
		res.Reason = "engine: " + m.end.detail
	case "panic":
		tp := m.end.p.(targetPanic)
		m.violation(nil, "panic", panicLabel(m.end.detail), m.end.detail+" @ "+tp.stack)
	case "deadlock":
		m.violation(nil, "deadlock", "deadlock", m.end.detail)
	}
	if m.dpos < len(m.trail) && res.Status == "ok" && len(res.Violations) == 0 {
		// a prefix that was not consumed: replay divergence
		res.Status = "inconclusive"
		res.Reason = fmt.Sprintf("engine: trail not fully consumed (%d of %d)", m.dpos, len(m.trail))
	}
	res.Trail = m.trail
	res.Steps = m.steps
	res.Nondets = m.evalNondets()
	for _, o := range m.obsLog {
		res.Outputs = append(res.Outputs, fmtObs(m, o))
	}
	res.UsedUF = m.usedUF
	res.Concurrent = len(m.gs) > 1
	m.prevPC, m.prevTrail, m.prevPCAt = m.pc, m.trail, m.pcAt
	if m.synced > len(m.pc) {
		m.solver.PopTo(len(m.pc))
	}
	return res
}

func sameDecision(a, b Decision) bool {
	if a.Kind != b.Kind || a.Out != b.Out || a.Open != b.Open {
		return false
	}
	if a.Open {
		return false // open decisions are decided afresh
	}
	return true
}

func panicLabel(detail string) string {
	if len(detail) > 80 {
		detail = detail[:80]
	}
	return "panic: " + detail
}

// Explore runs the harness over all feasible paths within the bounds of spec.
func Explore(p *Program, entry *ssa.Function, spec *RunSpec) *RunSummary {
	start := time.Now()
	sum := &RunSummary{Spec: spec, Covers: map[string]int{}, InconReasons: map[string]int{}, ViolGroups: map[string]int{}}
	workers := spec.Workers
	if workers <= 0 {
		workers = 16
	}
	budget := spec.Budget
	if budget <= 0 {
		budget = 20_000_000
	}
	maxPreempt := -1
	if spec.Preempt != nil {
		maxPreempt = *spec.Preempt
	}
	solverMs := spec.SolverMs
	if solverMs <= 0 {
		solverMs = 20000
	}
	opts := &Options{Fixed: spec.Fixed, NoMerge: spec.NoMerge, Budget: budget, MaxPreempt: maxPreempt, SolverKind: spec.Solver, TimeoutMs: solverMs, MapOrder: spec.MapOrder, PoolReuse: spec.PoolReuse, MaxDepth: spec.MaxDepth}
	maxPaths := spec.MaxPaths
	if maxPaths <= 0 {
		maxPaths = 2_000_000
	}
	deadline := start.Add(time.Duration(spec.TimeoutS) * time.Second)
	if spec.TimeoutS <= 0 {
		deadline = start.Add(30 * time.Minute)
	}

	// integer args
	sig := entry.Signature
	args := make([]value, sig.Params().Len())
	for i := range args {
		var a int64
		if i < len(spec.Args) {
			a = spec.Args[i]
		}
		k := basicKind(sig.Params().At(i).Type())
		if k == types.Invalid {
			panic(fmt.Sprintf("entry %s: parameter %d is not an integer", entry.Name(), i))
		}
		args[i] = fromBits(k, uint64(a))
	}

	var mu sync.Mutex
	outstanding := 1 // items created and not yet finished
	cond := sync.NewCond(&mu)
	stack := []WorkItem{{}}
	active := 0
	stop := false
	funcs := map[*ssa.Function]struct{}{}
	wantWitness := spec.Witnesses
	seenCoverSets := map[string]bool{}

	var wg sync.WaitGroup
	for w := 0; w < workers; w++ {
		wg.Add(1)
		go func(w int) {
			defer wg.Done()
			m, err := NewMachine(p, opts)
			if err != nil {
				fmt.Fprintln(os.Stderr, "solver start failed:", err)
				return
			}
			defer m.solver.Close()
			var local []WorkItem // LIFO: children of the last path first (longest shared prefix)
			for {
				var item WorkItem
				if len(local) > 0 {
					item = local[len(local)-1]
					local = local[:len(local)-1]
					mu.Lock()
					if stop {
						mu.Unlock()
						break
					}
					active++
					mu.Unlock()
				} else {
					mu.Lock()
					for len(stack) == 0 && outstanding > 0 && !stop {
						cond.Wait()
					}
					if stop || (len(stack) == 0 && outstanding == 0) {
						mu.Unlock()
						cond.Broadcast()
						break
					}
					item = stack[len(stack)-1]
					stack = stack[:len(stack)-1]
					active++
					mu.Unlock()
				}

				var newItems []WorkItem
				res := m.RunPath(item, entry, args, func(it WorkItem) { newItems = append(newItems, it) })
				local = append(local, newItems...)

				mu.Lock()
				active--
				// share work: if the global stack is low, donate the oldest (shallowest) local items
				if len(stack) < workers && len(local) > 1 {
					give := len(local) / 2
					if give > 8 {
						give = 8
					}
					stack = append(stack, local[:give]...)
					local = append([]WorkItem(nil), local[give:]...)
				}
				outstanding += len(newItems) - 1
				sum.Paths++
				sum.Decisions += int64(len(res.Trail))
				if len(res.Trail) > sum.MaxTrail {
					sum.MaxTrail = len(res.Trail)
				}
				sum.Steps += res.Steps
				sum.Asserts += int64(res.Asserts)
				sum.Obligations += int64(res.Obligations)
				if res.UsedUF {
					sum.UsedUF = true
				}
				switch res.Status {
				case "ok":
					sum.PathsOK++
				case "assume-false":
					sum.Infeasible++
				default:
					sum.Inconclusive++
					r := res.Reason
					if len(r) > 300 {
						r = r[:300]
					}
					sum.InconReasons[r]++
				}
				var cl []string
				for _, k := range sortedKeys(res.Covers) {
					sum.Covers[k] += res.Covers[k]
					cl = append(cl, k)
				}
				for i := range res.Violations {
					v := res.Violations[i]
					key := v.Kind + "|" + v.Label
					if spec.classify != nil {
						if c := spec.classify(&v); c != "" {
							key += "|" + c
						}
					}
					sum.ViolGroups[key]++
					if sum.ViolGroups[key] <= keepPerGroup {
						sum.Violations = append(sum.Violations, &v)
					}
				}
				if res.Status == "ok" && len(res.Violations) == 0 {
					ck := fmt.Sprint(cl)
					if len(sum.Samples) < 5 || (!seenCoverSets[ck] && len(sum.Samples) < 12) {
						sum.Samples = append(sum.Samples, map[string]any{"nondets": compactND(res.Nondets), "cover": cl, "observed": res.Outputs, "decisions": len(res.Trail)})
					}
					if (len(sum.Witnesses) < wantWitness) && (!seenCoverSets[ck] || len(sum.Witnesses) < wantWitness/2 || wantWitness > 100) {
						sum.Witnesses = append(sum.Witnesses, &Witness{Nondets: res.Nondets, Obs: res.Outputs, Covers: cl, Concurrent: res.Concurrent})
					}
					seenCoverSets[ck] = true
				}
				if sum.Paths >= maxPaths {
					stop = true
					sum.Truncated = fmt.Sprintf("max_paths=%d reached with %d items pending", maxPaths, len(stack))
				} else if time.Now().After(deadline) {
					stop = true
					sum.Truncated = fmt.Sprintf("timeout reached with %d items pending", len(stack))
				}
				mu.Unlock()
				cond.Broadcast()
			}
			mu.Lock()
			for f := range m.funcsSeen {
				funcs[f] = struct{}{}
			}
			st := m.solver.Stats
			sum.Solver.Queries += st.Queries
			sum.Solver.Sat += st.Sat
			sum.Solver.Unsat += st.Unsat
			sum.Solver.Unknown += st.Unknown
			sum.Solver.Errors += st.Errors
			sum.Solver.Time += st.Time
			sum.Solver.Restarts += st.Restarts
			mu.Unlock()
		}(w)
	}
	wg.Wait()
	for f := range funcs {
		pos := p.fset.Position(f.Pos())
		sum.Functions = append(sum.Functions, fmt.Sprintf("%s (%s:%d)", f.String(), shortPath(pos.Filename), pos.Line))
	}
	sort.Strings(sum.Functions)
	for _, c := range spec.Covers {
		if sum.Covers[c] == 0 {
			sum.MissingCovers = append(sum.MissingCovers, c)
		}
	}
	sum.SolverTimeS = sum.Solver.Time.Seconds()
	sum.WallS = time.Since(start).Seconds()
	return sum
}

func compactND(nd []NDVal) []string {
	out := make([]string, 0, len(nd))
	for _, n := range nd {
		out = append(out, fmt.Sprintf("%s=%#x", n.Name, n.V))
	}
	return out
}

var keepPerGroup = func() int {
	if v := os.Getenv("GOSYM_KEEP"); v != "" {
		var n int
		fmt.Sscanf(v, "%d", &n)
		if n > 0 {
			return n
		}
	}
	return 5
}()
