package main

// Native replay of schedule counterexamples. The engine records every preemptive context
// switch of the counterexample as (parked goroutine, source site, hit) + the event after which
// it ran again. The files containing those sites are copied, a call zzverifGate("file:line") is
// inserted before the statement at each site (go/ast rewrite, nothing else changes), and the
// copies are passed to `go test -overlay`; the gate runtime (harness/common/zz_verif_nd_replay.go)
// holds each parked goroutine until its resume event has happened. /repo is not touched.

import (
	"bytes"
	"fmt"
	"go/ast"
	"go/format"
	"go/parser"
	"go/token"
	"go/types"
	"os"
	"path/filepath"
	"strconv"
	"strings"
)

func insertGates(src []byte, filename string, lines []int) ([]byte, error) {
	fset := token.NewFileSet()
	f, err := parser.ParseFile(fset, filename, src, parser.ParseComments)
	if err != nil {
		return nil, err
	}
	base := filepath.Base(filename)
	done := map[int]bool{}
	var visit func(list *[]ast.Stmt)
	mk := func(line int) ast.Stmt {
		return &ast.ExprStmt{X: &ast.CallExpr{Fun: ast.NewIdent("zzverifGate"), Args: []ast.Expr{&ast.BasicLit{Kind: token.STRING, Value: strconv.Quote(fmt.Sprintf("%s:%d", base, line))}}}}
	}
	isYield := func(st ast.Stmt) bool {
		es, ok := st.(*ast.ExprStmt)
		if !ok {
			return false
		}
		c, ok := es.X.(*ast.CallExpr)
		if !ok {
			return false
		}
		id, ok := c.Fun.(*ast.Ident)
		return ok && id.Name == "verifYield"
	}
	visit = func(list *[]ast.Stmt) {
		for i := 0; i < len(*list); i++ {
			st := (*list)[i]
			sl, el := fset.Position(st.Pos()).Line, fset.Position(st.End()).Line
			// descend first: the innermost statement list wins
			descend(st, visit)
			for _, line := range lines {
				if done[line] || line < sl || line > el {
					continue
				}
				// only simple statements, or compound statements whose header is on the line
				if sl != line {
					continue
				}
				done[line] = true
				if isYield(st) {
					continue // verifYield gates by itself
				}
				nl := append([]ast.Stmt{}, (*list)[:i]...)
				nl = append(nl, mk(line))
				nl = append(nl, (*list)[i:]...)
				*list = nl
				i++
			}
		}
	}
	for _, d := range f.Decls {
		if fd, ok := d.(*ast.FuncDecl); ok && fd.Body != nil {
			visit(&fd.Body.List)
		}
	}
	for _, line := range lines {
		if !done[line] {
			return nil, fmt.Errorf("no statement starts at %s:%d", base, line)
		}
	}
	var out bytes.Buffer
	if err := format.Node(&out, fset, f); err != nil {
		return nil, err
	}
	return out.Bytes(), nil
}

func descend(st ast.Stmt, visit func(list *[]ast.Stmt)) {
	switch s := st.(type) {
	case *ast.BlockStmt:
		visit(&s.List)
	case *ast.IfStmt:
		visit(&s.Body.List)
		if s.Else != nil {
			descend(s.Else, visit)
		}
	case *ast.ForStmt:
		visit(&s.Body.List)
	case *ast.RangeStmt:
		visit(&s.Body.List)
	case *ast.SwitchStmt:
		visit(&s.Body.List)
	case *ast.TypeSwitchStmt:
		visit(&s.Body.List)
	case *ast.SelectStmt:
		visit(&s.Body.List)
	case *ast.CaseClause:
		visit(&s.Body)
	case *ast.CommClause:
		visit(&s.Body)
	case *ast.LabeledStmt:
		descend(s.Stmt, visit)
	case *ast.GoStmt:
		if fl, ok := s.Call.Fun.(*ast.FuncLit); ok {
			visit(&fl.Body.List)
		}
	case *ast.DeferStmt:
		if fl, ok := s.Call.Fun.(*ast.FuncLit); ok {
			visit(&fl.Body.List)
		}
	case *ast.ExprStmt:
		// function literals passed as arguments
		ast.Inspect(s.X, func(n ast.Node) bool {
			if fl, ok := n.(*ast.FuncLit); ok {
				visit(&fl.Body.List)
				return false
			}
			return true
		})
	case *ast.AssignStmt:
		for _, r := range s.Rhs {
			ast.Inspect(r, func(n ast.Node) bool {
				if fl, ok := n.(*ast.FuncLit); ok {
					visit(&fl.Body.List)
					return false
				}
				return true
			})
		}
	}
}

// scheduleReplay re-runs one counterexample natively under its gates; reports reproduction.
func scheduleReplay(ld *Loaded, dir, pkg string, harness []string, sigs map[string]*types.Signature, c *replayCase) bool {
	v := c.viol
	if len(v.Gates) == 0 {
		return false
	}
	// collect sites per file
	sites := map[string]map[int]bool{}
	add := func(site string) {
		i := strings.LastIndexByte(site, ':')
		if i <= 0 {
			return
		}
		line, err := strconv.Atoi(site[i+1:])
		if err != nil {
			return
		}
		if sites[site[:i]] == nil {
			sites[site[:i]] = map[int]bool{}
		}
		sites[site[:i]][line] = true
	}
	var gateLines strings.Builder
	for _, g := range v.Gates {
		if g.Park.Kind != "start" && g.Park.Site == "" {
			continue
		}
		ps := g.Park.Site
		if g.Park.Kind == "start" {
			ps = "@start"
		} else {
			add(g.Park.Site)
		}
		us := g.Until.Site
		if g.Until.Kind == "site" && us != "" {
			add(us)
		} else {
			us = "-"
		}
		fmt.Fprintf(&gateLines, "%d %s %d %d %s %s %d\n", g.Park.G, ps, g.Park.Hit, g.Until.G, g.Until.Kind, us, g.Until.Hit)
	}
	// harness overlay content (replay variant) to rewrite harness sites too
	hov, err := harnessOverlay(ld.PkgDir, ld.Name, harness, true)
	if err != nil {
		return false
	}
	extra := map[string][]byte{}
	for base, ls := range sites {
		var lines []int
		for l := range ls {
			lines = append(lines, l)
		}
		path := filepath.Join(ld.PkgDir, base)
		src, ok := hov[path]
		if !ok {
			b, err := os.ReadFile(path)
			if err != nil {
				fmt.Printf("  schedule replay: site file %s is outside the package under test\n", base)
				return false
			}
			src = b
		}
		out, err := insertGates(src, path, lines)
		if err != nil {
			fmt.Printf("  schedule replay: %v\n", err)
			return false
		}
		extra[path] = out
	}
	tmp, err := os.MkdirTemp("", "gosym-gates-")
	if err != nil {
		return false
	}
	defer os.RemoveAll(tmp)
	gp := filepath.Join(tmp, "gates.txt")
	os.WriteFile(gp, []byte(gateLines.String()), 0o644)
	// several attempts: the gates force the preemptions, the rest of the schedule is the runtime's
	for attempt := 0; attempt < 3; attempt++ {
		rc := &replayCase{name: c.name + "-sched", spec: c.spec, nondets: c.nondets, viol: v}
		if err := nativeReplayWith(ld, dir, pkg, harness, sigs, []*replayCase{rc}, extra, []string{"VERIF_GATES=" + gp}); err != nil {
			fmt.Printf("  schedule replay failed to build: %v\n", err)
			return false
		}
		c.out, c.panicked, c.ran = rc.out, rc.panicked, rc.ran
		switch v.Kind {
		case "panic":
			if rc.panicked != "" {
				return true
			}
		case "assert":
			for _, l := range rc.out {
				if l == "VERIF-ASSERT-FAIL "+v.Label {
					return true
				}
			}
		case "deadlock":
			if strings.Contains(rc.panicked, "process ended inside case") || strings.Contains(rc.panicked, "deadlock") || strings.Contains(rc.panicked, "timed out") {
				return true
			}
		}
	}
	return false
}
