// Portions derived from golang.org/x/tools/go/ssa/interp (BSD-style license,
// Copyright 2013 The Go Authors).

package main

// Values
//
// All interpreter values are "boxed" in the empty interface, value.
// The range of possible dynamic types within value are:
//
// - bool
// - numbers (all built-in int/float/complex types are distinguished)
// - sym --- a symbolic bool or integer: an SMT term plus its Go basic kind
// - string
// - symstr --- a string of concrete length whose bytes may be symbolic
// - *omap --- maps (insertion ordered, deterministic iteration)
// - *channel
// - []value --- slices
// - iface --- interfaces.
// - structure --- structs.  Fields are ordered and accessed by numeric indices.
// - array --- arrays.
// - *value --- pointers.  Careful: *value is a distinct type from *array etc.
// - symptr --- &slice[i] with a symbolic, in-range i
// - *ssa.Function \
//   *ssa.Builtin   } --- functions.  A nil 'func' is always of type *ssa.Function.
//   *closure      /
// - tuple --- as returned by Return, Next, "value,ok" modes, etc.
// - iter --- iterators from 'range' over map or string.
// - bad --- a poison pill for locals that have gone out of scope.
// - uptr --- an unsafe.Pointer: the original typed pointer plus its static type
// - **deferred -- the address of a frame's defer stack for a Defer._Stack.

import (
	"bytes"
	"fmt"
	"go/types"
	"unsafe"

	"golang.org/x/tools/go/ssa"
	"golang.org/x/tools/go/types/typeutil"
)

type value any

type tuple []value

type array []value

type iface struct {
	t types.Type // never an "untyped" type
	v value
}

type structure []value

// sym is a symbolic scalar.
type sym struct {
	t *Term
	k types.BasicKind
}

// symstr is a string with (possibly) symbolic bytes; len is concrete.
// Elements are uint8 or sym{k: Uint8}.
type symstr struct {
	b []value
}

// symptr is the address of base[idx] for a symbolic idx known to be in range.
type symptr struct {
	base []value
	idx  sym
}

// uptr models unsafe.Pointer: it remembers the pointer it was made from.
type uptr struct {
	p value      // *value, or nil
	t types.Type // static type of p (a pointer type), nil if p is nil
	// for pointers obtained from integers/unknown sources
	opaque bool
}

// For map, array, *array, slice, string or channel.
type iter interface {
	// next returns a Tuple (key, value, ok).
	next(fr *frame) tuple
}

type closure struct {
	Fn  *ssa.Function
	Env []value
}

type bad struct{}

var hasher = typeutil.MakeHasher()

func hashType(t types.Type) int {
	return int(hasher.Hash(t))
}

// nil-tolerant variant of types.Identical.
func sameType(x, y types.Type) bool {
	if x == nil {
		return y == nil
	}
	return y != nil && types.Identical(x, y)
}

func isSym(v value) bool {
	_, ok := v.(sym)
	return ok
}

// hasSym reports whether v (a scalar, string, array, struct or iface value) contains a symbolic leaf.
func hasSym(v value) bool {
	switch v := v.(type) {
	case sym, symstr:
		return true
	case structure:
		for _, e := range v {
			if hasSym(e) {
				return true
			}
		}
	case array:
		for _, e := range v {
			if hasSym(e) {
				return true
			}
		}
	case iface:
		return hasSym(v.v)
	}
	return false
}

// equalsC is Go's == for values without symbolic parts.
func equalsC(t types.Type, x, y value) bool {
	switch x := x.(type) {
	case bool:
		return x == y.(bool)
	case int:
		return x == y.(int)
	case int8:
		return x == y.(int8)
	case int16:
		return x == y.(int16)
	case int32:
		return x == y.(int32)
	case int64:
		return x == y.(int64)
	case uint:
		return x == y.(uint)
	case uint8:
		return x == y.(uint8)
	case uint16:
		return x == y.(uint16)
	case uint32:
		return x == y.(uint32)
	case uint64:
		return x == y.(uint64)
	case uintptr:
		return x == y.(uintptr)
	case float32:
		return x == y.(float32)
	case float64:
		return x == y.(float64)
	case complex64:
		return x == y.(complex64)
	case complex128:
		return x == y.(complex128)
	case string:
		return x == y.(string)
	case *value:
		return x == y.(*value)
	case *channel:
		return x == y.(*channel)
	case uptr:
		yy := y.(uptr)
		return ptrIdent(x.p) == ptrIdent(yy.p)
	case structure:
		y := y.(structure)
		tStruct := t.Underlying().(*types.Struct)
		for i, n := 0, tStruct.NumFields(); i < n; i++ {
			if f := tStruct.Field(i); f.Name() != "_" {
				if !equalsC(f.Type(), x[i], y[i]) {
					return false
				}
			}
		}
		return true
	case array:
		y := y.(array)
		tElt := t.Underlying().(*types.Array).Elem()
		for i, xi := range x {
			if !equalsC(tElt, xi, y[i]) {
				return false
			}
		}
		return true
	case iface:
		y := y.(iface)
		return sameType(x.t, y.t) && (x.t == nil || equalsC(x.t, x.v, y.v))
	}
	panic(engineError{fmt.Sprintf("comparing uncomparable type %s (%T)", t, x)})
}

func ptrIdent(p value) unsafe.Pointer {
	switch p := p.(type) {
	case nil:
		return nil
	case *value:
		return unsafe.Pointer(p)
	case []value:
		if cap(p) == 0 {
			return nil
		}
		return unsafe.Pointer(unsafe.SliceData(p))
	}
	return nil
}

// load returns the value of type T in *addr.
func load(T types.Type, addr *value) value {
	switch T := T.Underlying().(type) {
	case *types.Struct:
		v := (*addr).(structure)
		a := make(structure, len(v))
		for i := range a {
			a[i] = load(T.Field(i).Type(), &v[i])
		}
		return a
	case *types.Array:
		v := (*addr).(array)
		a := make(array, len(v))
		et := T.Elem()
		if isScalarType(et) {
			copy(a, v)
			return a
		}
		for i := range a {
			a[i] = load(et, &v[i])
		}
		return a
	default:
		return *addr
	}
}

func isScalarType(t types.Type) bool {
	switch t.Underlying().(type) {
	case *types.Struct, *types.Array:
		return false
	}
	return true
}

// store stores value v of type T into *addr.
func store(T types.Type, addr *value, v value) {
	switch T := T.Underlying().(type) {
	case *types.Struct:
		lhs := (*addr).(structure)
		rhs := v.(structure)
		for i := range lhs {
			store(T.Field(i).Type(), &lhs[i], rhs[i])
		}
	case *types.Array:
		lhs := (*addr).(array)
		rhs := v.(array)
		et := T.Elem()
		if isScalarType(et) {
			copy(lhs, rhs)
			return
		}
		for i := range lhs {
			store(et, &lhs[i], rhs[i])
		}
	default:
		*addr = v
	}
}

// copyVal makes an unaliased copy of an aggregate value (structs/arrays are values in Go).
func copyVal(v value) value {
	switch v := v.(type) {
	case structure:
		a := make(structure, len(v))
		for i := range v {
			a[i] = copyVal(v[i])
		}
		return a
	case array:
		a := make(array, len(v))
		for i := range v {
			a[i] = copyVal(v[i])
		}
		return a
	}
	return v
}

// Prints in the style of built-in println.
func writeValue(buf *bytes.Buffer, v value) {
	switch v := v.(type) {
	case nil, bool, int, int8, int16, int32, int64, uint, uint8, uint16, uint32, uint64, uintptr, float32, float64, complex64, complex128, string:
		fmt.Fprintf(buf, "%v", v)
	case sym:
		fmt.Fprintf(buf, "<sym %s>", v.t.strDepth(3))
	case symstr:
		fmt.Fprintf(buf, "<symstr len=%d>", len(v.b))
	case *omap:
		buf.WriteString("map[")
		sep := ""
		if v != nil {
			for _, e := range v.entries {
				if e.deleted {
					continue
				}
				buf.WriteString(sep)
				sep = " "
				writeValue(buf, e.key)
				buf.WriteString(":")
				writeValue(buf, e.val)
			}
		}
		buf.WriteString("]")
	case *channel:
		fmt.Fprintf(buf, "%p", v)
	case *value:
		if v == nil {
			buf.WriteString("<nil>")
		} else {
			fmt.Fprintf(buf, "%p", v)
		}
	case iface:
		fmt.Fprintf(buf, "(%s, ", v.t)
		writeValue(buf, v.v)
		buf.WriteString(")")
	case structure:
		buf.WriteString("{")
		for i, e := range v {
			if i > 0 {
				buf.WriteString(" ")
			}
			writeValue(buf, e)
		}
		buf.WriteString("}")
	case array:
		buf.WriteString("[")
		for i, e := range v {
			if i > 0 {
				buf.WriteString(" ")
			}
			writeValue(buf, e)
		}
		buf.WriteString("]")
	case []value:
		buf.WriteString("[")
		for i, e := range v {
			if i > 0 {
				buf.WriteString(" ")
			}
			writeValue(buf, e)
		}
		buf.WriteString("]")
	case *ssa.Function, *ssa.Builtin, *closure:
		fmt.Fprintf(buf, "%p", v) // (an address)
	case tuple:
		buf.WriteString("(")
		for i, e := range v {
			if i > 0 {
				buf.WriteString(", ")
			}
			writeValue(buf, e)
		}
		buf.WriteString(")")
	default:
		fmt.Fprintf(buf, "<%T>", v)
	}
}

func toString(v value) string {
	var b bytes.Buffer
	writeValue(&b, v)
	return b.String()
}

// ------------------------------------------------------------------------
// Maps: insertion-ordered association lists with a hash index for concrete keys.

type mapEntry struct {
	key     value
	val     value
	deleted bool
}

type omap struct {
	keyType types.Type
	entries []*mapEntry
	index   map[any]int // concrete comparable key (normalised) -> entry position
	live    int
	symKeys int // number of live entries whose key has symbolic parts
}

func makeMap(kt types.Type) *omap {
	return &omap{keyType: kt, index: map[any]int{}}
}

// normKey turns a concrete key value into something usable as a native map key.
// Returns ok=false if the key contains symbolic parts.
func normKey(v value) (any, bool) {
	switch v := v.(type) {
	case sym:
		return nil, false
	case symstr:
		// a view whose bytes are all concrete is an ordinary string key
		bs := make([]byte, len(v.b))
		for i, e := range v.b {
			c, ok := e.(uint8)
			if !ok {
				return nil, false
			}
			bs[i] = c
		}
		return string(bs), true
	case structure:
		var sb bytes.Buffer
		sb.WriteString("S{")
		for _, e := range v {
			k, ok := normKey(e)
			if !ok {
				return nil, false
			}
			fmt.Fprintf(&sb, "%T:%v|", k, k)
		}
		return sb.String(), true
	case array:
		var sb bytes.Buffer
		sb.WriteString("A[")
		for _, e := range v {
			k, ok := normKey(e)
			if !ok {
				return nil, false
			}
			fmt.Fprintf(&sb, "%T:%v|", k, k)
		}
		return sb.String(), true
	case iface:
		if v.t == nil {
			return "I<nil>", true
		}
		k, ok := normKey(v.v)
		if !ok {
			return nil, false
		}
		return fmt.Sprintf("I(%s)%T:%v", v.t.String(), k, k), true
	case uptr:
		return ptrIdent(v.p), true
	case *ssa.Function, *closure, []value, *omap:
		panic(targetPanic{v: errString("runtime error: hash of unhashable type")})
	}
	return v, true
}

func (m *omap) len() int {
	if m == nil {
		return 0
	}
	return m.live
}

// Iterators

type stringIter struct {
	s symstr
	i int
}

type mapIter struct {
	m   *omap
	pos int
}

func (it *mapIter) next(fr *frame) tuple {
	if it.m != nil {
		for it.pos < len(it.m.entries) {
			e := it.m.entries[it.pos]
			it.pos++
			if !e.deleted {
				return tuple{true, e.key, copyVal(e.val)}
			}
		}
	}
	return tuple{false, nil, nil}
}
