package main

// Hash-consed SMT terms over Bool and fixed-width bit-vectors (w<=64),
// with constant folding, a concrete evaluator (for the concolic witness
// model) and SMT-LIB2 printing.

import (
	"fmt"
	"strings"
)

type Op uint8

const (
	OpVar Op = iota
	OpConst
	OpNot
	OpAnd
	OpOr
	OpEq
	OpIte
	OpBvNot
	OpBvNeg
	OpAdd
	OpSub
	OpMul
	OpUDiv
	OpSDiv
	OpURem
	OpSRem
	OpBvAnd
	OpBvOr
	OpBvXor
	OpShl
	OpLShr
	OpAShr
	OpULt
	OpULe
	OpSLt
	OpSLe
	OpExtract // val = hi<<8|lo
	OpConcat
	OpZExt // val = extra bits
	OpSExt
	OpUF // uninterpreted function: name, args in xs
)

var opNames = [...]string{
	OpNot: "not", OpAnd: "and", OpOr: "or", OpEq: "=", OpIte: "ite",
	OpBvNot: "bvnot", OpBvNeg: "bvneg", OpAdd: "bvadd", OpSub: "bvsub", OpMul: "bvmul",
	OpUDiv: "bvudiv", OpSDiv: "bvsdiv", OpURem: "bvurem", OpSRem: "bvsrem",
	OpBvAnd: "bvand", OpBvOr: "bvor", OpBvXor: "bvxor", OpShl: "bvshl", OpLShr: "bvlshr", OpAShr: "bvashr",
	OpULt: "bvult", OpULe: "bvule", OpSLt: "bvslt", OpSLe: "bvsle", OpConcat: "concat",
}

// Term is an immutable node. w==0 means Bool, otherwise a bit-vector of width w.
type Term struct {
	id      int32
	op      Op
	w       uint8
	a, b, c *Term
	xs      []*Term // OpUF args
	val     uint64
	name    string
	taint   bool // depends on an opaque (formatted) value
}

type termKey struct {
	op      Op
	w       uint8
	a, b, c int32
	val     uint64
	name    string
}

type TermTable struct {
	tab   map[termKey]*Term
	terms []*Term
	vars  []*Term
	ufs   map[string]string // name -> declaration
	True  *Term
	False *Term
}

func NewTermTable() *TermTable {
	tt := &TermTable{tab: make(map[termKey]*Term, 1024), ufs: map[string]string{}}
	tt.False = tt.mk(OpConst, 0, nil, nil, nil, 0, "")
	tt.True = tt.mk(OpConst, 0, nil, nil, nil, 1, "")
	return tt
}

func tid(t *Term) int32 {
	if t == nil {
		return -1
	}
	return t.id
}

func (tt *TermTable) mk(op Op, w uint8, a, b, c *Term, val uint64, name string) *Term {
	k := termKey{op, w, tid(a), tid(b), tid(c), val, name}
	if t, ok := tt.tab[k]; ok {
		return t
	}
	t := &Term{id: int32(len(tt.terms)), op: op, w: w, a: a, b: b, c: c, val: val, name: name}
	t.taint = (a != nil && a.taint) || (b != nil && b.taint) || (c != nil && c.taint)
	tt.terms = append(tt.terms, t)
	tt.tab[k] = t
	if op == OpVar {
		tt.vars = append(tt.vars, t)
	}
	return t
}

func mask(w uint8) uint64 {
	if w >= 64 {
		return ^uint64(0)
	}
	return (uint64(1) << w) - 1
}

func sext(v uint64, w uint8) int64 {
	if w >= 64 {
		return int64(v)
	}
	sh := 64 - uint(w)
	return int64(v<<sh) >> sh
}

func (t *Term) IsConst() bool { return t.op == OpConst }
func (t *Term) IsTrue() bool  { return t.op == OpConst && t.w == 0 && t.val == 1 }
func (t *Term) IsFalse() bool { return t.op == OpConst && t.w == 0 && t.val == 0 }

func (tt *TermTable) Var(name string, w uint8) *Term {
	return tt.mk(OpVar, w, nil, nil, nil, 0, name)
}

func (tt *TermTable) Const(v uint64, w uint8) *Term {
	return tt.mk(OpConst, w, nil, nil, nil, v&maskB(w), "")
}

func (tt *TermTable) Bool(b bool) *Term {
	if b {
		return tt.True
	}
	return tt.False
}

func (tt *TermTable) Not(a *Term) *Term {
	if a.op == OpConst {
		return tt.Bool(a.val == 0)
	}
	if a.op == OpNot {
		return a.a
	}
	return tt.mk(OpNot, 0, a, nil, nil, 0, "")
}

func (tt *TermTable) And(a, b *Term) *Term {
	if a.IsFalse() || b.IsFalse() {
		return tt.False
	}
	if a.IsTrue() {
		return b
	}
	if b.IsTrue() {
		return a
	}
	if a == b {
		return a
	}
	if (a.op == OpNot && a.a == b) || (b.op == OpNot && b.a == a) {
		return tt.False
	}
	if a.id > b.id {
		a, b = b, a
	}
	return tt.mk(OpAnd, 0, a, b, nil, 0, "")
}

func (tt *TermTable) Or(a, b *Term) *Term {
	if a.IsTrue() || b.IsTrue() {
		return tt.True
	}
	if a.IsFalse() {
		return b
	}
	if b.IsFalse() {
		return a
	}
	if a == b {
		return a
	}
	if (a.op == OpNot && a.a == b) || (b.op == OpNot && b.a == a) {
		return tt.True
	}
	if a.id > b.id {
		a, b = b, a
	}
	return tt.mk(OpOr, 0, a, b, nil, 0, "")
}

func (tt *TermTable) Eq(a, b *Term) *Term {
	if a.w != b.w {
		panic(fmt.Sprintf("Eq width mismatch %d vs %d", a.w, b.w))
	}
	if a == b {
		return tt.True
	}
	if a.op == OpConst && b.op == OpConst {
		return tt.Bool(a.val == b.val)
	}
	if a.w == 0 {
		if a.IsTrue() {
			return b
		}
		if b.IsTrue() {
			return a
		}
		if a.IsFalse() {
			return tt.Not(b)
		}
		if b.IsFalse() {
			return tt.Not(a)
		}
	}
	// (ite c k1 k2) == k3
	if b.op == OpIte && a.op == OpConst {
		a, b = b, a
	}
	if a.op == OpIte && b.op == OpConst && (a.b.op == OpConst || a.c.op == OpConst) {
		return tt.Ite(a.a, tt.Eq(a.b, b), tt.Eq(a.c, b))
	}
	// zext(x) == const  -> x == const' or false
	if b.op == OpZExt && a.op == OpConst {
		a, b = b, a
	}
	if a.op == OpZExt && b.op == OpConst {
		if b.val&^mask(a.a.w) != 0 {
			return tt.False
		}
		return tt.Eq(a.a, tt.Const(b.val, a.a.w))
	}
	if a.id > b.id {
		a, b = b, a
	}
	return tt.mk(OpEq, 0, a, b, nil, 0, "")
}

func (tt *TermTable) Ite(c, a, b *Term) *Term {
	if a.w != b.w {
		panic("Ite width mismatch")
	}
	if c.IsTrue() {
		return a
	}
	if c.IsFalse() {
		return b
	}
	if a == b {
		return a
	}
	if c.op == OpNot {
		return tt.Ite(c.a, b, a)
	}
	if a.w == 0 {
		if a.IsTrue() && b.IsFalse() {
			return c
		}
		if a.IsFalse() && b.IsTrue() {
			return tt.Not(c)
		}
		if a.IsTrue() {
			return tt.Or(c, b)
		}
		if a.IsFalse() {
			return tt.And(tt.Not(c), b)
		}
		if b.IsTrue() {
			return tt.Or(tt.Not(c), a)
		}
		if b.IsFalse() {
			return tt.And(c, a)
		}
	}
	return tt.mk(OpIte, a.w, c, a, b, 0, "")
}

func evalBin(op Op, w uint8, x, y uint64) uint64 {
	m := mask(w)
	switch op {
	case OpAdd:
		return (x + y) & m
	case OpSub:
		return (x - y) & m
	case OpMul:
		return (x * y) & m
	case OpUDiv:
		if y == 0 {
			return m
		}
		return (x / y) & m
	case OpURem:
		if y == 0 {
			return x
		}
		return (x % y) & m
	case OpSDiv:
		sx, sy := sext(x, w), sext(y, w)
		if sy == 0 {
			if sx < 0 {
				return 1
			}
			return m
		}
		if sy == -1 {
			return uint64(-sx) & m
		}
		return uint64(sx/sy) & m
	case OpSRem:
		sx, sy := sext(x, w), sext(y, w)
		if sy == 0 {
			return x
		}
		if sy == -1 {
			return 0
		}
		return uint64(sx%sy) & m
	case OpBvAnd:
		return x & y
	case OpBvOr:
		return x | y
	case OpBvXor:
		return x ^ y
	case OpShl:
		if y >= uint64(w) {
			return 0
		}
		return (x << y) & m
	case OpLShr:
		if y >= uint64(w) {
			return 0
		}
		return (x >> y) & m
	case OpAShr:
		sx := sext(x, w)
		if y >= uint64(w) {
			if sx < 0 {
				return m
			}
			return 0
		}
		return uint64(sx>>y) & m
	case OpULt:
		return b2u(x < y)
	case OpULe:
		return b2u(x <= y)
	case OpSLt:
		return b2u(sext(x, w) < sext(y, w))
	case OpSLe:
		return b2u(sext(x, w) <= sext(y, w))
	}
	panic("evalBin: bad op")
}

func b2u(b bool) uint64 {
	if b {
		return 1
	}
	return 0
}

// Bin builds a binary bit-vector operation (result width = operand width, or Bool for comparisons).
func (tt *TermTable) Bin(op Op, a, b *Term) *Term {
	if a.w != b.w {
		panic(fmt.Sprintf("Bin %s width mismatch %d vs %d", opNames[op], a.w, b.w))
	}
	rw := a.w
	switch op {
	case OpULt, OpULe, OpSLt, OpSLe:
		rw = 0
	}
	if a.op == OpConst && b.op == OpConst {
		v := evalBin(op, a.w, a.val, b.val)
		if rw == 0 {
			return tt.Bool(v != 0)
		}
		return tt.Const(v, rw)
	}
	switch op {
	case OpAdd, OpBvOr, OpBvXor:
		if a.op == OpConst && a.val == 0 {
			return b
		}
		if b.op == OpConst && b.val == 0 {
			return a
		}
	case OpSub, OpShl, OpLShr, OpAShr:
		if b.op == OpConst && b.val == 0 {
			return a
		}
	case OpMul:
		if a.op == OpConst && a.val == 1 {
			return b
		}
		if b.op == OpConst && b.val == 1 {
			return a
		}
		if (a.op == OpConst && a.val == 0) || (b.op == OpConst && b.val == 0) {
			return tt.Const(0, rw)
		}
	case OpBvAnd:
		if (a.op == OpConst && a.val == 0) || (b.op == OpConst && b.val == 0) {
			return tt.Const(0, rw)
		}
		if a.op == OpConst && a.val == mask(a.w) {
			return b
		}
		if b.op == OpConst && b.val == mask(a.w) {
			return a
		}
	case OpULt:
		if a == b {
			return tt.False
		}
		if b.op == OpConst && b.val == 0 {
			return tt.False
		}
	case OpULe:
		if a == b {
			return tt.True
		}
		if a.op == OpConst && a.val == 0 {
			return tt.True
		}
	case OpSLt:
		if a == b {
			return tt.False
		}
	case OpSLe:
		if a == b {
			return tt.True
		}
	}
	// comparisons of zero-extended values against constants: narrow them
	if rw == 0 && (op == OpULt || op == OpULe || op == OpSLt || op == OpSLe) {
		if a.op == OpZExt && b.op == OpConst && a.a.w < 63 {
			// value range of a is [0, 2^k); signed and unsigned agree when the wide width > k
			k := a.a.w
			bv := b.val
			neg := (op == OpSLt || op == OpSLe) && sext(bv, b.w) < 0
			if neg {
				return tt.False
			}
			if bv > mask(k) {
				return tt.True
			}
			uop := op
			if op == OpSLt {
				uop = OpULt
			} else if op == OpSLe {
				uop = OpULe
			}
			return tt.Bin(uop, a.a, tt.Const(bv, k))
		}
		if b.op == OpZExt && a.op == OpConst && b.a.w < 63 {
			k := b.a.w
			av := a.val
			neg := (op == OpSLt || op == OpSLe) && sext(av, a.w) < 0
			if neg {
				return tt.True
			}
			if av > mask(k) {
				return tt.False
			}
			uop := op
			if op == OpSLt {
				uop = OpULt
			} else if op == OpSLe {
				uop = OpULe
			}
			return tt.Bin(uop, tt.Const(av, k), b.a)
		}
	}
	switch op {
	case OpAdd, OpMul, OpBvAnd, OpBvOr, OpBvXor:
		if a.id > b.id {
			a, b = b, a
		}
	}
	return tt.mk(op, rw, a, b, nil, 0, "")
}

func (tt *TermTable) BvNot(a *Term) *Term {
	if a.op == OpConst {
		return tt.Const(^a.val, a.w)
	}
	return tt.mk(OpBvNot, a.w, a, nil, nil, 0, "")
}

func (tt *TermTable) BvNeg(a *Term) *Term {
	if a.op == OpConst {
		return tt.Const(-a.val, a.w)
	}
	return tt.mk(OpBvNeg, a.w, a, nil, nil, 0, "")
}

func (tt *TermTable) Extract(a *Term, hi, lo uint8) *Term {
	w := hi - lo + 1
	if w == a.w {
		return a
	}
	if a.op == OpConst {
		return tt.Const(a.val>>lo, w)
	}
	if lo == 0 && (a.op == OpZExt || a.op == OpSExt) {
		if w == a.a.w {
			return a.a
		}
		if w < a.a.w {
			return tt.Extract(a.a, hi, 0)
		}
		if a.op == OpZExt {
			return tt.ZExt(a.a, w)
		}
		return tt.SExt(a.a, w)
	}
	return tt.mk(OpExtract, w, a, nil, nil, uint64(hi)<<8|uint64(lo), "")
}

// ZExt zero-extends a to width w.
func (tt *TermTable) ZExt(a *Term, w uint8) *Term {
	if w == a.w {
		return a
	}
	if w < a.w {
		return tt.Extract(a, w-1, 0)
	}
	if a.op == OpConst {
		return tt.Const(a.val, w)
	}
	if a.op == OpZExt {
		return tt.ZExt(a.a, w)
	}
	return tt.mk(OpZExt, w, a, nil, nil, uint64(w-a.w), "")
}

// SExt sign-extends a to width w.
func (tt *TermTable) SExt(a *Term, w uint8) *Term {
	if w == a.w {
		return a
	}
	if w < a.w {
		return tt.Extract(a, w-1, 0)
	}
	if a.op == OpConst {
		return tt.Const(uint64(sext(a.val, a.w)), w)
	}
	if a.op == OpZExt {
		return tt.ZExt(a.a, w)
	}
	return tt.mk(OpSExt, w, a, nil, nil, uint64(w-a.w), "")
}

func (tt *TermTable) Concat(hi, lo *Term) *Term {
	if hi.op == OpConst && lo.op == OpConst {
		return tt.Const(hi.val<<lo.w|lo.val, hi.w+lo.w)
	}
	return tt.mk(OpConcat, hi.w+lo.w, hi, lo, nil, 0, "")
}

// UF applies an uninterpreted function (declared on first use).
func (tt *TermTable) UF(name string, w uint8, args []*Term) *Term {
	var key strings.Builder
	key.WriteString(name)
	for _, a := range args {
		fmt.Fprintf(&key, ",%d", a.id)
	}
	k := termKey{op: OpUF, w: w, a: -1, b: -1, c: -1, name: key.String()}
	if t, ok := tt.tab[k]; ok {
		return t
	}
	if _, ok := tt.ufs[name]; !ok {
		var sb strings.Builder
		fmt.Fprintf(&sb, "(declare-fun %s (", name)
		for _, a := range args {
			sb.WriteString(sortName(a.w))
			sb.WriteByte(' ')
		}
		fmt.Fprintf(&sb, ") %s)", sortName(w))
		tt.ufs[name] = sb.String()
	}
	t := &Term{id: int32(len(tt.terms)), op: OpUF, w: w, xs: append([]*Term(nil), args...), name: name}
	tt.terms = append(tt.terms, t)
	tt.tab[k] = t
	return t
}

func sortName(w uint8) string {
	if w == 0 {
		return "Bool"
	}
	return fmt.Sprintf("(_ BitVec %d)", w)
}

func constLit(v uint64, w uint8) string {
	if w == 0 {
		if v != 0 {
			return "true"
		}
		return "false"
	}
	if w%4 == 0 {
		return fmt.Sprintf("#x%0*x", int(w/4), v)
	}
	return fmt.Sprintf("#b%0*b", int(w), v)
}

// body prints the definition of t in terms of the names of its children.
func (t *Term) body(nameOf func(*Term) string) string {
	switch t.op {
	case OpConst:
		return constLit(t.val, t.w)
	case OpVar:
		return t.name
	case OpNot, OpBvNot, OpBvNeg:
		return "(" + opNames[t.op] + " " + nameOf(t.a) + ")"
	case OpIte:
		return "(ite " + nameOf(t.a) + " " + nameOf(t.b) + " " + nameOf(t.c) + ")"
	case OpExtract:
		return fmt.Sprintf("((_ extract %d %d) %s)", t.val>>8, t.val&0xff, nameOf(t.a))
	case OpZExt:
		return fmt.Sprintf("((_ zero_extend %d) %s)", t.val, nameOf(t.a))
	case OpSExt:
		return fmt.Sprintf("((_ sign_extend %d) %s)", t.val, nameOf(t.a))
	case OpUF:
		var sb strings.Builder
		sb.WriteString("(" + t.name)
		for _, a := range t.xs {
			sb.WriteString(" " + nameOf(a))
		}
		sb.WriteString(")")
		return sb.String()
	default:
		return "(" + opNames[t.op] + " " + nameOf(t.a) + " " + nameOf(t.b) + ")"
	}
}

// Model maps variable names to values (missing = 0).
type Model map[string]uint64

// Eval evaluates t under m. UF applications are looked up in m by a canonical key
// (name(arg values)); missing entries evaluate to 0 and are recorded in m so the
// interpretation stays functional within one evaluation session.
func (tt *TermTable) Eval(t *Term, m Model, cache map[int32]uint64) uint64 {
	if t.op == OpConst {
		return t.val
	}
	if v, ok := cache[t.id]; ok {
		return v
	}
	var v uint64
	switch t.op {
	case OpVar:
		v = m[t.name] & maskB(t.w)
	case OpNot:
		v = 1 - tt.Eval(t.a, m, cache)
	case OpAnd:
		v = tt.Eval(t.a, m, cache)
		if v != 0 {
			v = tt.Eval(t.b, m, cache)
		}
	case OpOr:
		v = tt.Eval(t.a, m, cache)
		if v == 0 {
			v = tt.Eval(t.b, m, cache)
		}
	case OpEq:
		v = b2u(tt.Eval(t.a, m, cache) == tt.Eval(t.b, m, cache))
	case OpIte:
		if tt.Eval(t.a, m, cache) != 0 {
			v = tt.Eval(t.b, m, cache)
		} else {
			v = tt.Eval(t.c, m, cache)
		}
	case OpBvNot:
		v = ^tt.Eval(t.a, m, cache) & mask(t.w)
	case OpBvNeg:
		v = -tt.Eval(t.a, m, cache) & mask(t.w)
	case OpExtract:
		hi, lo := uint8(t.val>>8), uint8(t.val&0xff)
		v = (tt.Eval(t.a, m, cache) >> lo) & mask(hi-lo+1)
	case OpZExt:
		v = tt.Eval(t.a, m, cache)
	case OpSExt:
		v = uint64(sext(tt.Eval(t.a, m, cache), t.a.w)) & mask(t.w)
	case OpConcat:
		v = tt.Eval(t.a, m, cache)<<t.b.w | tt.Eval(t.b, m, cache)
	case OpUF:
		var sb strings.Builder
		sb.WriteString(t.name + "(")
		for _, a := range t.xs {
			fmt.Fprintf(&sb, "%x,", tt.Eval(a, m, cache))
		}
		sb.WriteString(")")
		k := sb.String()
		if x, ok := m[k]; ok {
			v = x & maskB(t.w)
		} else {
			// default interpretation: a cheap injective-looking mix so that
			// distinct arguments rarely collide in the witness model.
			h := uint64(1469598103934665603)
			for i := 0; i < len(k); i++ {
				h ^= uint64(k[i])
				h *= 1099511628211
			}
			v = h & maskB(t.w)
			m[k] = v
		}
	default:
		v = evalBin(t.op, t.a.w, tt.Eval(t.a, m, cache), tt.Eval(t.b, m, cache))
	}
	cache[t.id] = v
	return v
}

func maskB(w uint8) uint64 {
	if w == 0 {
		return 1
	}
	return mask(w)
}

// String renders a term as an s-expression tree (debugging / samples).
func (t *Term) String() string {
	return t.strDepth(6)
}

func (t *Term) strDepth(d int) string {
	if d == 0 {
		return "…"
	}
	return t.body(func(c *Term) string { return c.strDepth(d - 1) })
}
