#!/bin/sh
# Builds the gosym engine offline from /verif/gosym (go1.26.8 + x/tools v0.50.0 from the module cache).
set -e
cd "$(dirname "$0")/gosym"
export GOFLAGS=-mod=mod GOPROXY=off GOSUMDB=off GOTOOLCHAIN=local CGO_ENABLED=0
mkdir -p ../bin ../evidence ../replays
/opt/veriftools/go1.26.8/bin/go build -o ../bin/gosym .
echo "gosym built"
