#!/usr/bin/env python3
"""usage: tools_saveseed.py <seed-dir-in-/tmp/seedout> <detected_by|MISSED> <notes> [alt-patch]"""
import json,sys,os,shutil
src=sys.argv[1]; name=os.path.basename(src.rstrip('/'))
dst='/verif/seeded/'+name
os.makedirs(dst,exist_ok=True)
patch=sys.argv[4] if len(sys.argv)>4 else os.path.join(src,'patch.diff')
shutil.copy(patch,os.path.join(dst,'patch.diff'))
for f in os.listdir(src):
    if f.startswith('demo') or f.endswith('_test.go') or f=='main.go':
        shutil.copy(os.path.join(src,f),os.path.join(dst,f))
meta=json.load(open(os.path.join(src,'meta.json')))
meta['detected_by']=sys.argv[2]
meta['verification_notes']=sys.argv[3]
json.dump(meta,open(os.path.join(dst,'meta.json'),'w'),indent=1)
print('saved',dst)
