#!/bin/sh
# usage: tools_summarize.sh <dir> <pkg> <harness> <entry> <args> [timeout]  -- debugging helper: runs one harness and groups counterexamples by label with decoded inputs
out=$(mktemp)
timeout ${6:-1200} /verif/bin/gosym run -dir "$1" -pkg "$2" -harness "$3" -entry "$4" -args "$5" -timeout ${6:-900} > $out 2>&1
grep -E '"paths"|wall_s|inconclusive_paths|engine|truncated' $out | cut -c1-300 | tr '\n' ' '; echo
grep -A4 "^CEX" $out | grep -E "^CEX|obs input" | paste - - | sed 's/detail=.*obs input/ input/' | sort | uniq -c | sort -rn | awk '{$1="";print}' | cut -c1-220 | head -${7:-25}
rm -f $out
